#!/bin/sh
# ./run_all.sh [quick|thorough]  - every registered check, sequentially; summary at the end
cd "$(dirname "$0")"
TIER="${1:-quick}"; rc=0
for i in 01 02 03 04 05 06 07 08 09 10 11 12 13 14 15 16 17 18 19 20; do
  s=$(date +%s); ./run C$i $TIER > /tmp/verif_C$i.$TIER.log 2>&1; e=$?; t=$(( $(date +%s) - s ))
  echo "C$i exit=$e ${t}s $(grep -c '^VIOLATION' /tmp/verif_C$i.$TIER.log) violations $(grep -c '^KNOWN-FINDING' /tmp/verif_C$i.$TIER.log) known"
  [ $e -ne 0 ] && rc=1
done
exit $rc
