"""State invariants of engine A (visitors called in every explored state; see explore.py).

chen_visitor   C03  Chen's relation for W and U over all grid triples, zero-length shape rule, antisymmetry of A,
                    multi-piece answers vs. the reference decomposition (root descent), ReverseBrownian axis.
law_visitor    C04  exact covariance of (W,H) over a probe family from labelled noise vs. closed form;
                    Davie/Foster conditional mean/variance identity from the logged Levy noise.
order_visitor  C06  dyadic mode: answers equal the fresh-object dictionary.
"""
import itertools
import math
from fractions import Fraction

import numpy as np
import torch

from . import bm_machine as bmm
from . import seams
from .core import digest, HarnessError


# ---------------------------------------------------------------------------------------------------
# C03
# ---------------------------------------------------------------------------------------------------
def _scale(*ts):
    m = 1.0
    for t in ts:
        if t is not None and t.numel():
            m = max(m, float(t.abs().max()))
    return m


def _viol(out, rp, history, kind, detail, probes=None, **sig_extra):
    cfg = rp.cfg
    sig = dict(kind=kind, wrapper=cfg['wrapper'], levy=cfg['levy'], cache_size=cfg['cache_size'], dt=cfg['dt'],
               tol=cfg['tol'], halfway=cfg['halfway'], ndim=len(cfg['size']), via=cfg['via'], given=cfg['given'])
    sig.update(sig_extra)
    out.violation(sig, detail, dict(engine='A', cfg=cfg, entropy=rp.entropy, mode=rp.mode, K=rp.K,
                                    history=[list(o) if not isinstance(o, dict) else o for o in history],
                                    probes=probes))


def chen_visitor(rp, history, answers, out, opts):
    grid = opts['grid']
    tolr = opts.get('rtol', 1e-12)
    via = rp.cfg['via']
    pairs = list(itertools.combinations(grid, 2))
    # deterministic variation of the probe order between states
    if (len(history) + len(answers)) % 2:
        pairs = pairs[::-1]
    table = {}
    probes = []
    for a, b in pairs:
        ans = rp.query(via, a, b, check_repeat=False)
        probes.append([a, b])
        if ans is None:
            return
        table[(a, b)] = ans
        # multi-piece answers against the reference decomposition
        if rp.mode != 'labelled' or True:
            try:
                pieces = bmm.ref_decompose(rp.b.top, a, b)
            except AttributeError:
                pieces = None
                out.count('refdecomp_unavailable')
            if pieces is not None and len(pieces) > 1:
                out.count('multi_piece_queries')
                if via == 'r':
                    pieces = pieces[::-1]
                W = U = A = None
                t_first = None
                for (pa, pb) in pieces:
                    pans = rp.query(via, pa, pb, check_repeat=False)
                    if pans is None:
                        return
                    Wi, Ui, Ai = pans
                    if W is None:
                        W, U, A = Wi, Ui, Ai
                    else:
                        # Chen, left to right on the axis of the handle; (length of the new piece) * W so far
                        if U is not None:
                            U = U + Ui + (pb - pa) * W
                        if A is not None and A.dim() == W.dim() + 1:
                            A = A + Ai + 0.5 * (W.unsqueeze(-1) * Wi.unsqueeze(-2) - Wi.unsqueeze(-1) * W.unsqueeze(-2))
                        W = W + Wi
                for name, x, y in zip('WUA', ans, (W, U, A)):
                    if x is None:
                        continue
                    if x.shape != y.shape or float((x - y).abs().max()) > tolr * _scale(x, y):
                        _viol(out, rp, history, 'pieces', f"{name}({a},{b}) != Chen combination of stored pieces "
                              f"{pieces}: maxdiff={float((x - y).abs().max()) if x.shape == y.shape else 'shape'}",
                              probes, which=name)
                        return
    # zero-length queries
    shapes = None
    for (a, b), ans in table.items():
        shapes = tuple(None if x is None else tuple(x.shape) for x in ans)
        break
    for a in grid:
        z = rp.query(via, a, a, check_repeat=False)
        if z is None:
            return
        zs = tuple(None if x is None else tuple(x.shape) for x in z)
        if shapes is not None and zs != shapes:
            _viol(out, rp, history, 'zero_shape', f"zero-length query at {a} returns shapes {zs}, a non-degenerate "
                  f"query returns {shapes}", probes)
            return
        for name, x in zip('WUA', z):
            if x is not None and float(x.abs().max()) != 0.0:
                _viol(out, rp, history, 'zero_value', f"zero-length query at {a}: {name} is not zero", probes,
                      which=name)
                return
        out.count('zero_length_checked')
    # triples
    for s, u, t in itertools.combinations(grid, 3):
        Wst, Ust, Ast = table[(s, t)]
        Wsu, Usu, _ = table[(s, u)]
        Wut, Uut, _ = table[(u, t)]
        sc = _scale(Wst, Wsu, Wut)
        if float((Wst - (Wsu + Wut)).abs().max()) > tolr * sc:
            _viol(out, rp, history, 'chen_W', f"W({s},{t}) != W({s},{u}) + W({u},{t}): "
                  f"{float((Wst - (Wsu + Wut)).abs().max())}", probes)
            return
        if Ust is not None:
            if via == 'd':
                rhs = Usu + Uut + (t - u) * Wsu
            else:
                # reversed axis: first piece is [u,t], second [s,u] of length (u-s)
                rhs = Uut + Usu + (u - s) * Wut
            if float((Ust - rhs).abs().max()) > tolr * _scale(Ust, rhs):
                _viol(out, rp, history, 'chen_U', f"U({s},{t}) != U({s},{u}) + U({u},{t}) + (t-u) W({s},{u}) "
                      f"[axis of handle '{via}']: {float((Ust - rhs).abs().max())}", probes)
                return
        out.count('triples_checked')
    # point evaluations (single-argument form): value(t) - value(s) is the increment, value(t0) is the initial value
    if via == 'd' and opts.get('points', True):
        vals = {}
        for t in grid:
            pv = rp.query('p', t, t, check_repeat=False)
            if pv is None:
                return
            vals[t] = pv[0]
        w0 = rp.b.w0 if rp.b.w0 is not None else 0.
        t_first = rp.cfg['t0']
        if t_first in vals and float((vals[t_first] - w0).abs().max()) != 0.0:
            _viol(out, rp, history, 'point_value', f"point evaluation at t0 is not the initial value", probes)
            return
        for (s_, t_), (Wst, _, _) in table.items():
            d = vals[t_] - vals[s_]
            if float((d - Wst).abs().max()) > tolr * _scale(Wst, vals[t_]):
                _viol(out, rp, history, 'point_value', f"value({t_}) - value({s_}) != W({s_},{t_}): "
                      f"{float((d - Wst).abs().max())}", probes)
                return
            out.count('point_differences_checked')
    # antisymmetry
    for (a, b), (W, U, A) in table.items():
        if A is not None and A.dim() == W.dim() + 1:
            if float((A + A.transpose(-1, -2)).abs().max()) > (1e-14 if A.dtype == torch.float64 else 1e-6) * _scale(A):
                _viol(out, rp, history, 'antisym', f"A({a},{b}) is not antisymmetric", probes)
                return
            out.count('antisym_checked')


# ---------------------------------------------------------------------------------------------------
# C04
# ---------------------------------------------------------------------------------------------------
def kernel_cov(I1, kind1, I2, kind2):
    """Covariance of two Wiener integrals with kernels 1_[s,t] ('W') or ((t-r)/h - 1/2) 1_[s,t] ('H')."""
    (s1, t1), (s2, t2) = I1, I2
    lo, hi = max(s1, s2), min(t1, t2)
    if hi <= lo:
        return 0.0

    def lin(kind, s, t):
        if kind == 'W':
            return 1.0, 0.0
        h = t - s
        return t / h - 0.5, -1.0 / h

    a1, b1 = lin(kind1, s1, t1)
    a2, b2 = lin(kind2, s2, t2)
    return (a1 * a2 * (hi - lo) + (a1 * b2 + a2 * b1) * (hi * hi - lo * lo) / 2 + b1 * b2 * (hi ** 3 - lo ** 3) / 3)


def kernel_cov_exact(I1, kind1, I2, kind2):
    (s1, t1), (s2, t2) = [tuple(map(Fraction, I)) for I in (I1, I2)]
    lo, hi = max(s1, s2), min(t1, t2)
    if hi <= lo:
        return Fraction(0)

    def lin(kind, s, t):
        if kind == 'W':
            return Fraction(1), Fraction(0)
        h = t - s
        return t / h - Fraction(1, 2), -1 / h

    a1, b1 = lin(kind1, s1, t1)
    a2, b2 = lin(kind2, s2, t2)
    return (a1 * a2 * (hi - lo) + (a1 * b2 + a2 * b1) * (hi * hi - lo * lo) / 2 + b1 * b2 * (hi ** 3 - lo ** 3) / 3)


def ref_cov(intervals, with_H):
    stats = [(I, 'W') for I in intervals] + ([(I, 'H') for I in intervals] if with_H else [])
    n = len(stats)
    S = np.zeros((n, n))
    for i in range(n):
        for j in range(i, n):
            S[i, j] = S[j, i] = kernel_cov(stats[i][0], stats[i][1], stats[j][0], stats[j][1])
    return S


_REF_CACHE = {}


def law_visitor(rp, history, answers, out, opts):
    """Labelled mode: rows returned by the library are exact coefficient vectors over independent N(0,1) labels."""
    grid = opts['grid']
    cfg = rp.cfg
    via = cfg['via']
    with_H = rp.b.H
    intervals = list(itertools.combinations(grid, 2))
    if (len(history) + len(answers)) % 2:
        intervals = intervals[::-1]
    extra = []
    if opts.get('leaves', True):
        try:
            rnd = rp.b.top._round
            gs = set(rnd(g) for g in grid)
            for (a, b) in bmm.tree_leaves(rp.b.top)[:opts.get('max_leaves', 24)]:
                if b - a >= 1e-3 and not (a in gs and b in gs):
                    extra.append((a, b))
        except AttributeError:
            out.count('leaves_unavailable')
    intervals = intervals + extra
    if extra:
        out.count('states_with_offgrid_leaf_probes')
    rows_W, rows_H = [], []
    eff = []
    try:
        rnd = rp.b.top._round
    except AttributeError:
        rnd = (lambda x: x)
    for a, b in intervals:
        ans = rp.query(via, a, b, check_repeat=False)
        if ans is None:
            return
        W, U, _ = ans
        ra, rb = rnd(a), rnd(b)
        eff.append((ra, rb) if via == 'd' else (-rb, -ra))
        rows_W.append(W)
        if with_H:
            h = rb - ra
            rows_H.append(U / (b - a) - 0.5 * W)
    key = (tuple(eff), with_H)
    if key not in _REF_CACHE:
        if len(_REF_CACHE) > 64:
            _REF_CACHE.clear()
        _REF_CACHE[key] = ref_cov(eff, with_H)
    R = _REF_CACHE[key]
    stacked = torch.stack(rows_W + rows_H)
    if stacked.dim() == 3:
        # sample shape (B, K): every batch row must be a Brownian motion of its own, independent of the other rows
        Ms = [stacked[:, b, :].numpy() for b in range(stacked.shape[1])]
        for b1 in range(len(Ms)):
            for b2 in range(b1 + 1, len(Ms)):
                cross = np.abs(Ms[b1] @ Ms[b2].T).max()
                out.count('cross_row_covariances_checked')
                if cross > opts.get('tol', 1e-11):
                    _viol(out, rp, history, 'row_dependence',
                          f"batch rows {b1} and {b2} of the sample are correlated (max |cov| = {cross:.6g}); rows must "
                          f"be independent Brownian motions", [list(I) for I in intervals])
                    return
        M = Ms[0]
        for Mb in Ms[1:]:
            Sb = Mb @ Mb.T
            if np.abs(Sb - R).max() > opts.get('tol', 1e-11):
                M = Mb
                break
    else:
        M = stacked.numpy()
    S = M @ M.T
    err = np.abs(S - R)
    out.count('covariance_entries_checked', int(S.size))
    out.mx('max_cov_error', float(err.max()))
    if err.max() > opts.get('tol', 1e-11):
        i, j = np.unravel_index(err.argmax(), err.shape)
        n = len(intervals)
        name = lambda k: ('W' if k < n else 'H') + str(tuple(intervals[k % n]))
        _viol(out, rp, history, 'covariance',
              f"Cov({name(i)},{name(j)}) = {S[i, j]:.12g} but Brownian motion has {R[i, j]:.12g}",
              [list(I) for I in intervals],
              stat=('W' if i < n else 'H') + ('W' if j < n else 'H'))
        return
    # the noise must be asked for at the full sample shape (C20: every element its own noise)


def given_visitor(rp, history, answers, out, opts):
    """Supplied W (and H): whole-interval query returns exactly the supplied value (bitwise)."""
    law_visitor(rp, history, answers, out, opts)
    gW, gH = rp.given
    cfg = rp.cfg
    ans = rp.query(cfg['via'], cfg['t0'], cfg['t1'], check_repeat=False)
    if ans is None:
        return
    W, U, _ = ans
    if gW is not None and not torch.equal(W, gW):
        _viol(out, rp, history, 'given_W', "bm(t0,t1) is not the supplied W", None)
    if gH is not None and rp.b.H:
        T = cfg['t1'] - cfg['t0']
        H = U / T - 0.5 * W
        if float((H - gH).abs().max()) > 1e-14:
            _viol(out, rp, history, 'given_H', "space-time Levy area over [t0,t1] is not the supplied H", None)
    out.count('given_value_checked')


def levy_identity_visitor(rp, history, answers, out, opts):
    """Real noise, size (B,m): A - (H x W - W x H) must be sigma_ref * (N - N^T) elementwise, N the logged noise."""
    grid = opts['grid']
    cfg = rp.cfg
    levy = cfg['levy']
    intervals = list(itertools.combinations(grid, 2))
    if (len(history) + len(answers)) % 2:
        intervals = intervals[::-1]
    try:
        rnd = rp.b.top._round
    except AttributeError:
        rnd = (lambda x: x)
    for a, b in intervals:
        n0 = len(rp.seam.log)
        ans = rp.query(cfg['via'], a, b, check_repeat=False)
        if ans is None:
            return
        W, U, A = ans
        draws = [(size, seed) for size, seed in rp.seam.log[n0:] if len(size) == len(cfg['size']) + 1]
        if len(draws) != 1:
            out.count('levy_multi_piece_skipped')
            continue
        size, seed = draws[0]
        if size != tuple(cfg['size']) + (cfg['size'][-1],):
            _viol(out, rp, history, 'noise_shape', f"Levy-area noise drawn at shape {size}", None)
            return
        N = seams.REAL_RANDN(size, W.dtype, W.device, seed)
        h = rnd(b) - rnd(a)
        H = U / (b - a) - 0.5 * W
        mean = H.unsqueeze(-1) * W.unsqueeze(-2) - W.unsqueeze(-1) * H.unsqueeze(-2)
        if levy == 'davie':
            var = torch.full_like(mean, h * h / 12)
        else:
            H2 = H ** 2
            var = h * h / 20 + (h / 5) * (H2.unsqueeze(-1) + H2.unsqueeze(-2))
        # N - N^T has variance 2 off the diagonal
        expect = mean + (var / 2).sqrt() * (N - N.transpose(-1, -2))
        err = float((A - expect).abs().max())
        out.count('levy_identities_checked')
        if err > 1e-12 * _scale(A, expect):
            resid = A - mean
            skew = N - N.transpose(-1, -2)
            i = [0] * (A.dim() - 2) + [0, 1]
            ratio = float(resid[tuple(i)] / skew[tuple(i)]) ** 2 * 2
            _viol(out, rp, history, 'levy_variance',
                  f"{levy}: A({a},{b}) - (H x W - W x H) != sqrt(Var_ref/2) (N - N^T); implied conditional variance "
                  f"of element (0,1) is {ratio:.6g}, the scheme prescribes {float(var[tuple(i)]):.6g} (h={h})",
                  [[a, b]], levy=levy)
            return


def selftest_reference():
    """The float oracle against exact rational arithmetic on the fixed grid (run once per check)."""
    grid = bmm.G8
    ints = list(itertools.combinations(grid, 2))[:20]
    worst = 0.0
    for I1, I2 in itertools.product(ints, ints):
        for k1, k2 in itertools.product('WH', 'WH'):
            worst = max(worst, abs(kernel_cov(I1, k1, I2, k2) - float(kernel_cov_exact(I1, k1, I2, k2))))
    if worst > 1e-14:
        raise HarnessError(f"float covariance oracle disagrees with exact rational arithmetic: {worst}")
    # var H = h/12, H independent of W on the same interval
    assert abs(kernel_cov((0.25, 0.75), 'H', (0.25, 0.75), 'H') - 0.5 / 12) < 1e-15
    assert abs(kernel_cov((0.25, 0.75), 'H', (0.25, 0.75), 'W')) < 1e-15
    return worst
