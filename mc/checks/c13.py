"""C13 - chunked (checkpoint-restart) integration equals one-shot integration (engine B, restart-point enumeration)."""
from .. import loop_machine as lm
from .. import zoo
from ..core import Check, pmap, main


def run(tier, seed):
    chk = Check('C13', tier, seed, 'fault_enumeration',
                rule="for a solve of N grid steps every subset of the N-1 interior grid points is used as the set of "
                     "restart points (2^(N-1) chunkings), for every supported cell, threading extra_solver_state; "
                     "oracle = one-shot solve, torch.equal on all shared outputs and the final extra state; "
                     "non-trivial = chunkings with at least one restart (distinct (cell,N,restart set,output mode))")
    Ns = [6] if tier == 'quick' else [8, 5]
    units = []
    for cell in zoo.cells():
        for N in Ns:
            for dense in (True, False):
                units.append(dict(cell=list(cell), N=N, entropy=130 + seed, dense=dense))
            # final time off the step grid (restart points still on it)
            units.append(dict(cell=list(cell), N=N - 2, entropy=130 + seed, dense=False, tail=0.25))
    chk.count('work_units', len(units))
    for part in pmap(lm.c13_unit, units):
        chk.merge(part)
    chk.expect('executions', len(units) * 2 ** (min(Ns) - 3))
    chk.assumptions = ["restart points on the dyadic step grid; same Brownian object across chunks"]
    return chk


if __name__ == '__main__':
    main(run)
