"""C09 - adjoint: same forward values as sdeint; gradients converge to the true gradient (engines C+D).

Exact parts: (i) forward equality (torch.equal) on every admissible (sde_type, noise_type, method, adjoint_method)
cell, also with extra=True and logqp=True; (ii) gradient targeting over every subset of {y0, each parameter};
(iii) every non-empty subset of output times as the support of the loss (linearity in grad_ys).
Convergence part: relative gradient error vs backprop through sdeint at the same dt and vs closed-form gradients,
along a dt ladder with a fixed 128-path batch.
"""
import itertools
import json
import math
import os
import warnings

import torch

import torchsde

from .. import matrix
from .. import zoo
from ..core import Check, pmap, main, VERIF
from ..explore import Out

CEIL_FILE = os.path.join(VERIF, 'mc', 'c09_ceilings.json')


def admissible_cells():
    out = []
    for st, nt in itertools.product(zoo.SDE_TYPES, zoo.NOISE_TYPES):
        for method in zoo.METHODS:
            if not zoo.supported(st, nt, method):
                continue
            for am in zoo.METHODS + ('adjoint_reversible_heun',):
                if matrix.adjoint_expected(st, nt, method, am):
                    out.append((st, nt, method, am))
    return out


def exact_unit(unit):
    out = Out()
    st, nt, method, am = unit['cell']
    name = f"{st}/{nt}/{method}->{am}"
    B = 2
    with warnings.catch_warnings():
        warnings.simplefilter('ignore')
        d, m = (2, 2) if nt != 'scalar' else (2, 1)
        prog = zoo.Prog(nt, st, d, m, 0)
        levy = zoo.levy_for(method)
        tsl = [0., 0.25, 0.5, 0.75]
        ts = torch.tensor(tsl, dtype=torch.float64)
        dt = 0.125
        y0 = zoo.y0_for(prog, B)
        mk = lambda: zoo.make_bm(prog, B, levy, unit['entropy'], t1=0.75)

        def bad(kind, detail, what=None, **extra):
            out.violation(dict(kind=kind, cell=name, method=method, adjoint_method=am, what=what,
                               style=extra.get('style')), f"{name}: {detail}",
                          dict(engine='C-c09', cell=list(unit['cell']), entropy=unit['entropy'], ts=tsl, dt=dt, **extra))

        # (i) forward equality
        for extra, logqp in ((False, False), (True, False), (False, True)):
            if logqp and nt == 'diagonal':
                continue  # needs a (d+1)-channel Brownian motion; covered by C18
            bm = mk()
            with torch.no_grad():
                a = torchsde.sdeint(prog, y0, ts, bm=bm, method=method, dt=dt, extra=extra, logqp=logqp)
            b = torchsde.sdeint_adjoint(prog, y0, ts, bm=bm, method=method, adjoint_method=am, dt=dt, extra=extra,
                                        logqp=logqp)
            out.count('executions')
            fa = a if torch.is_tensor(a) else list(a[:1]) + list(a[1] if extra else [a[1]])
            fb = b if torch.is_tensor(b) else list(b[:1]) + list(b[1] if extra else [b[1]])
            fa = [fa] if torch.is_tensor(fa) else fa
            fb = [fb] if torch.is_tensor(fb) else fb
            if len(fa) != len(fb) or any(not torch.equal(x.detach(), y.detach()) for x, y in zip(fa, fb)):
                bad('forward', f"sdeint_adjoint values differ from sdeint (extra={extra}, logqp={logqp})")
            else:
                out.keys.add(('fwd', name, extra, logqp))
        # (ii) gradient targeting
        pnames = ['theta_f', 'theta_g', 'psi', 'unused']
        allp = dict(prog.named_parameters())
        ref = {}
        subsets = [s for r in range(0, 6) for s in itertools.combinations(['y0'] + pnames, r)]
        if unit['tier'] == 'quick':
            subsets = [s for s in subsets if len(s) in (0, 1, 4, 5)]
        for sub in subsets:
            for style in ('requires_grad', 'adjoint_params'):
                yy = y0.clone().requires_grad_('y0' in sub)
                for n_, p in allp.items():
                    p.grad = None
                    p.requires_grad_(True if style == 'adjoint_params' else (n_ in sub))
                allp['frozen'].requires_grad_(False)
                kw = {}
                if style == 'adjoint_params':
                    kw['adjoint_params'] = [allp[n_] for n_ in sub if n_ != 'y0']
                bm = mk()
                ys = torchsde.sdeint_adjoint(prog, yy, ts, bm=bm, method=method, adjoint_method=am, dt=dt, **kw)
                out.count('executions')
                if not ys.requires_grad:
                    if sub and not (style == 'adjoint_params' and sub == ('y0',) and False):
                        if len(sub) > 0:
                            bad('targeting', f"requested {sub} ({style}) but the output does not require grad")
                    continue
                ys[-1].sum().backward()
                got = {n_: p.grad for n_, p in allp.items()}
                got['y0'] = yy.grad
                for n_ in ['y0'] + pnames + ['frozen']:
                    if n_ in sub:
                        if got[n_] is None:
                            bad('targeting', f"{n_} was requested ({style}, {sub}) but received no gradient",
                                what='requested_tensor_without_gradient', style=style)
                        else:
                            key = n_
                            if key in ref:
                                if float((ref[key] - got[n_]).abs().max()) > 1e-12 * max(1.0, float(ref[key].abs().max())):
                                    bad('targeting', f"gradient of {n_} depends on which other tensors were "
                                        f"requested ({style}, {sub})", what='gradient_depends_on_request_set',
                                        style=style)
                            else:
                                ref[key] = got[n_].clone()
                    elif got[n_] is not None and float(got[n_].abs().max()) != 0.0:
                        bad('targeting', f"{n_} was not requested ({style}, {sub}) but received a gradient",
                            what='unrequested_parameter_receives_gradient' if n_ != 'y0' else
                            'unrequested_y0_receives_gradient', style=style, requested=list(sub), tensor=n_)
                out.keys.add(('target', name, sub, style))
        for p in allp.values():
            p.requires_grad_(True)
        allp['frozen'].requires_grad_(False)
        # (iii) loss supports: linearity over output times
        T = len(tsl)
        single = {}
        params = [p for p in prog.parameters() if p.requires_grad]
        gen = torch.Generator().manual_seed(4)
        Wt = torch.randn(T, B, prog.d, dtype=torch.float64, generator=gen)
        for r in range(1, T + 1):
            for S in itertools.combinations(range(T), r):
                yy = y0.clone().requires_grad_(True)
                bm = mk()
                ys = torchsde.sdeint_adjoint(prog, yy, ts, bm=bm, method=method, adjoint_method=am, dt=dt)
                loss = sum((ys[k] * Wt[k]).sum() for k in S)
                gs = torch.autograd.grad(loss, [yy] + params, allow_unused=True)
                gs = [torch.zeros_like(x) if g is None else g for g, x in zip(gs, [yy] + params)]
                out.count('executions')
                if r == 1:
                    single[S[0]] = gs
                else:
                    want = [sum(single[k][j] for k in S) for j in range(len(gs))]
                    err = max(float((a_ - b_).abs().max()) for a_, b_ in zip(gs, want))
                    sc = max(1.0, max(float(b_.abs().max()) for b_ in want))
                    if err > 1e-10 * sc:
                        bad('loss_support', f"loss on output times {S}: gradient is not the sum of the single-time "
                            f"gradients (error {err})", support=list(S))
                    else:
                        out.keys.add(('support', name, S))
        # loss on ys[0] only: gradient wrt y0 is the weight itself, nothing else
        if float((single[0][0] - Wt[0]).abs().max()) > 1e-12:
            bad('loss_support', "loss on ys[0] only: d/dy0 is not the loss weight")
        if max(float(g.abs().max()) for g in single[0][1:]) > 1e-12:
            bad('loss_support', "loss on ys[0] only: parameters received a non-zero gradient")
    out.sample(dict(cell=name, ts=tsl, dt=dt), limit=1)
    return out.pack()


class GBM(torch.nn.Module):
    def __init__(self, st, nt):
        super().__init__()
        self.sde_type, self.noise_type = st, nt
        self.mu = torch.nn.Parameter(torch.tensor(0.3, dtype=torch.float64))
        self.sigma = torch.nn.Parameter(torch.tensor(0.5, dtype=torch.float64))
        self.d = 1
        self.m = 1

    def f(self, t, y):
        return self.mu * y

    def g(self, t, y):
        g = self.sigma * y
        return g if self.noise_type == 'diagonal' else g.unsqueeze(-1)

    def closed_grads(self, y0, T, W):
        """Gradients of sum_b y_T[b] wrt (y0, mu, sigma)."""
        mu, sg = float(self.mu), float(self.sigma)
        c = (mu - 0.5 * sg * sg) if self.sde_type == 'ito' else mu
        E = torch.exp(c * T + sg * W)
        yT = y0 * E
        dsig = (W - sg * T) if self.sde_type == 'ito' else W
        return [E, (yT * T).sum(), (yT * dsig).sum()]


def ladder_values(cell, entropy, rungs, B=128):
    st, nt, method, am = cell
    res = []
    d, m = (2, 2) if nt != 'scalar' else (2, 1)
    prog = zoo.Prog(nt, st, d, m, 0)
    gbm = GBM(st, nt) if nt in ('diagonal', 'scalar', 'general') else None
    levy = zoo.levy_for(method)
    ts = torch.tensor([0., 0.5, 1.0], dtype=torch.float64)
    with warnings.catch_warnings():
        warnings.simplefilter('ignore')
        for k in rungs:
            dt = 2.0 ** -k
            y0 = zoo.y0_for(prog, B).requires_grad_(True)
            params = [p for p in prog.parameters() if p.requires_grad]
            bm = zoo.make_bm(prog, B, levy, entropy)
            ya = torchsde.sdeint_adjoint(prog, y0, ts, bm=bm, method=method, adjoint_method=am, dt=dt)
            ga = torch.autograd.grad((ya[1:] ** 2).sum() / B, [y0] + params, allow_unused=True)
            yb = torchsde.sdeint(prog, y0, ts, bm=bm, method=method, dt=dt)
            gb = torch.autograd.grad((yb[1:] ** 2).sum() / B, [y0] + params, allow_unused=True)
            num = math.sqrt(sum(float(((a if a is not None else 0 * b) - b).pow(2).sum()) for a, b in zip(ga, gb)
                                if b is not None))
            den = math.sqrt(sum(float(b.pow(2).sum()) for b in gb if b is not None))
            e_bp = num / den
            e_cf = None
            if gbm is not None and nt != 'general':
                y0g = torch.full((B, 1), 0.8, dtype=torch.float64).requires_grad_(True)
                bmg = torchsde.BrownianInterval(0., 1., size=(B, 1), dtype=torch.float64, entropy=entropy,
                                                levy_area_approximation=levy)
                yg = torchsde.sdeint_adjoint(gbm, y0g, torch.tensor([0., 1.], dtype=torch.float64), bm=bmg,
                                             method=method, adjoint_method=am, dt=dt)
                gg = torch.autograd.grad(yg[-1].sum(), [y0g, gbm.mu, gbm.sigma])
                cf = gbm.closed_grads(y0g.detach(), 1.0, bmg(0., 1.))
                num = math.sqrt(sum(float((a - b).pow(2).sum()) for a, b in zip(gg, cf)))
                den = math.sqrt(sum(float(torch.as_tensor(b).pow(2).sum()) for b in cf))
                e_cf = num / den
            res.append((k, e_bp, e_cf))
    return res


def ladder_unit(unit):
    out = Out()
    cell = tuple(unit['cell'])
    name = "{}/{}/{}->{}".format(*cell)
    vals = ladder_values(cell, unit['entropy'], unit['rungs'])
    out.count('executions', len(vals))
    ceil = unit.get('ceiling')
    label = dict(cell=name, ladder=[(k, float('%.3g' % a), None if b is None else float('%.3g' % b)) for k, a, b in vals])
    for idx, what in ((1, 'backprop at the same dt'), (2, 'the closed-form gradient')):
        series = [v[idx] for v in vals if v[idx] is not None]
        if not series:
            continue
        first, last = series[0], series[-1]
        exact_pair = cell[2] == 'reversible_heun' and cell[3] == 'adjoint_reversible_heun' and idx == 1
        if exact_pair:
            if last > 1e-9:
                out.violation(dict(kind='ladder', cell=name, against=what), f"{label}: reversible pair not exact",
                              dict(engine='D-c09', entropy=unit['entropy'], **label))
            continue
        if not (last <= 0.5 * first):
            out.violation(dict(kind='ladder_decrease', cell=name, against=what),
                          f"{name}: relative gradient error vs {what} does not halve from dt=2^-{vals[0][0]} "
                          f"({first:.3e}) to dt=2^-{vals[-1][0]} ({last:.3e}); ladder {label['ladder']}",
                          dict(engine='D-c09', entropy=unit['entropy'], **label))
        if ceil and ceil.get(str(idx)) is not None and last > ceil[str(idx)]:
            out.violation(dict(kind='ladder_ceiling', cell=name, against=what),
                          f"{name}: relative gradient error vs {what} at the finest rung is {last:.3e}, above the "
                          f"calibrated ceiling {ceil[str(idx)]:.3e}",
                          dict(engine='D-c09', entropy=unit['entropy'], **label))
    out.keys.add(('ladder', name))
    out.sample(label, limit=1)
    r = out.pack()
    r['ladder'] = (name, vals)
    return r


def ladder_cells():
    """One forward method per (sde_type, noise_type, adjoint_method): the documented default (and the reversible pair)."""
    out = []
    for st, nt, method, am in admissible_cells():
        if method == zoo.DOC_DEFAULT[(st, nt)] or (method, am) == ('reversible_heun', 'adjoint_reversible_heun'):
            out.append((st, nt, method, am))
    return out


def dispatch(unit):
    return exact_unit(unit) if unit['what'] == 'exact' else ladder_unit(unit)


def run(tier, seed):
    chk = Check('C09', tier, seed, 'exploration',
                rule="exact parts on every admissible (sde_type, noise_type, method, adjoint_method) cell: forward "
                     "torch.equal to sdeint (also extra/logqp), every subset of {y0, parameters} as gradient targets "
                     "(two styles), every non-empty subset of 4 output times as loss support; convergence: dt ladder "
                     "2^-3..2^-7 (thorough 2^-9) with a fixed 128-path batch vs backprop and closed-form gradients")
    ceilings = json.load(open(CEIL_FILE)) if os.path.exists(CEIL_FILE) else {}
    cells = admissible_cells()
    chk.count('admissible_cells', len(cells))
    units = [dict(what='exact', cell=list(c), tier=tier, entropy=90 + seed) for c in cells]
    rungs = [3, 5, 7] if tier == 'quick' else [3, 5, 7, 9]
    for c in ladder_cells():
        name = "{}/{}/{}->{}".format(*c)
        units.append(dict(what='ladder', cell=list(c), entropy=90 + seed, rungs=rungs,
                          ceiling=ceilings.get(tier, {}).get(name)))
    units.sort(key=lambda u: 0 if u['what'] == 'ladder' else 1)
    for part in pmap(dispatch, units):
        chk.merge(part)
    chk.assumptions = ["the limit dt->0 itself is not decided: bounded ladder with calibrated ceilings (4x the largest "
                       "value over 16 calibration entropies, mc/c09_ceilings.json); sharpness comes from C11 and C10"]
    return chk


if __name__ == '__main__':
    if os.environ.get('VERIF_CALIBRATE'):
        import sys
        tier = sys.argv[1]
        rungs = [3, 5, 7] if tier == 'quick' else [3, 5, 7, 9]
        units = [dict(what='ladder', cell=list(c), entropy=1000 + e, rungs=rungs) for c in ladder_cells()
                 for e in range(16)]
        worst = {}
        alllad = {}
        for part in pmap(ladder_unit, units):
            name, vals = part['ladder']
            alllad.setdefault(name, []).append(vals)
            for idx in (1, 2):
                if vals[-1][idx] is not None:
                    worst.setdefault(name, {}).setdefault(str(idx), 0.0)
                    worst[name][str(idx)] = max(worst[name][str(idx)], vals[-1][idx])
        ceil = json.load(open(CEIL_FILE)) if os.path.exists(CEIL_FILE) else {}
        ceil[tier] = {n: {k: 4 * v for k, v in d.items()} for n, d in worst.items()}
        ceil.setdefault('_calibration', {})[tier] = {n: [[(k, a, b) for k, a, b in v] for v in vs[:3]]
                                                     for n, vs in alllad.items()}
        ratios = {n: max(v[-1][1] / v[0][1] for v in vs) for n, vs in alllad.items()}
        ceil.setdefault('_worst_ratio_last_over_first', {})[tier] = ratios
        json.dump(ceil, open(CEIL_FILE, 'w'), indent=1)
        for n, r in sorted(ratios.items()):
            print(n, 'worst ratio', round(r, 4), 'worst last', worst[n])
    else:
        main(run)
