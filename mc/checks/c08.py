"""C08 - sdeint is differentiable: backprop equals the numerical solution's derivative (engines C+D).

Oracle: central finite differences of sdeint outputs with the Brownian object held fixed.  The gradient is linear in
the loss weights, so the full Jacobian block d ys / d(y0, theta) is compared for every output entry and every input
coordinate - that covers all loss weightings.
"""
import itertools
import warnings

import torch

import torchsde

from .. import seams
from .. import zoo
from ..core import Check, pmap, main
from ..explore import Out

EPS = 1e-6


def solve(prog, y0, ts, bm, method, dt, opts, adaptive):
    kw = dict(adaptive=True, rtol=50.0, atol=50.0, dt_min=1e-3) if adaptive else {}
    return torchsde.sdeint(prog, y0, ts, bm=bm, method=method, dt=dt, options=dict(opts), **kw)


def unit_fn(unit):
    out = Out()
    cell = tuple(unit['cell'])
    st, nt, method, opts = cell
    B = 2
    with warnings.catch_warnings():
        warnings.simplefilter('ignore')
        progs = zoo.programs(nt, st, 'thorough')
        progs = progs[:1] + progs[-1:] if unit['tier'] == 'quick' else progs
        for (pname, prog), tsl, dt, adaptive, levy, y0_grad in itertools.product(
                progs, ([0., 0.5], [0., 0.2, 0.45, 0.5]), (0.125, 0.2), (False, True),
                (['davie', 'foster'] if method == 'log_ode' else [zoo.levy_for(method)]), (True, False)):
            if adaptive and (dt != 0.125 or len(tsl) != 4):
                continue
            if not y0_grad and (len(tsl) != 2 or adaptive):
                continue  # parameters only (y0 does not require grad): one ts pattern per dt is enough
            ts = torch.tensor(tsl, dtype=torch.float64)
            y0 = zoo.y0_for(prog, B).requires_grad_(y0_grad)
            bm = seams.RecordingBM(zoo.make_bm(prog, B, levy, unit['entropy'], t1=0.5))
            params = [p for p in prog.parameters() if p.requires_grad]
            ys = solve(prog, y0, ts, bm, method, dt, opts, adaptive)
            sched = list(bm.log)
            label = dict(cell=zoo.cell_name(cell), program=pname, ts=tsl, dt=dt, adaptive=adaptive, levy=levy,
                         y0_requires_grad=y0_grad)
            # autograd Jacobian: rows = output entries, columns = input coordinates
            inputs = ([y0] if y0_grad else []) + params
            ncol = sum(x.numel() for x in inputs)
            outs = [(k, b, i) for k in range(1, len(tsl)) for b in range(B) for i in range(prog.d)]
            J = torch.zeros(len(outs), ncol, dtype=torch.float64)
            for r, (k, b, i) in enumerate(outs):
                gs = torch.autograd.grad(ys[k, b, i], inputs, retain_graph=True, allow_unused=True)
                J[r] = torch.cat([(torch.zeros_like(x) if g is None else g).reshape(-1) for g, x in zip(gs, inputs)])
            # finite differences, column by column
            F = torch.zeros_like(J)
            ok = True
            with torch.no_grad():
                col = 0
                for x in inputs:
                    flat = x.data.view(-1)
                    for j in range(flat.numel()):
                        old = float(flat[j])
                        res = []
                        for sgn in (1, -1):
                            flat[j] = old + sgn * EPS
                            bm.log.clear()
                            yy = solve(prog, y0, ts, bm, method, dt, opts, adaptive)
                            if adaptive and list(bm.log) != sched:
                                ok = False
                            res.append(yy)
                        flat[j] = old
                        d = (res[0] - res[1]) / (2 * EPS)
                        F[:, col] = torch.stack([d[k, b, i] for (k, b, i) in outs])
                        col += 1
            out.count('executions')
            out.count('jacobian_entries_compared', int(J.numel()))
            if not ok:
                out.count('adaptive_schedule_changed_under_perturbation_skipped')
                continue
            err = float((J - F).abs().max())
            sc = max(1.0, float(F.abs().max()))
            out.mx('max_jacobian_error', err / sc)
            if err > 2e-6 * sc:
                r, c = divmod(int((J - F).abs().argmax()), ncol)
                names = (['y0'] if y0_grad else []) + [n for n, p in prog.named_parameters() if p.requires_grad]
                cum = 0
                which = None
                for nme, x in zip(names, inputs):
                    if c < cum + x.numel():
                        which = nme
                        break
                    cum += x.numel()
                out.violation(dict(kind='backprop_vs_fd', cell=zoo.cell_name(cell), wrt=which, adaptive=adaptive),
                              f"{label}: d ys{list(outs[r])}/d {which}: backprop {float(J[r, c])}, central differences "
                              f"{float(F[r, c])}", dict(engine='D-c08', entropy=unit['entropy'], **label))
            else:
                out.keys.add((zoo.cell_name(cell), pname, tuple(tsl), dt, adaptive, levy, y0_grad))
            out.sample(label, limit=1)
    return out.pack()


def run(tier, seed):
    chk = Check('C08', tier, seed, 'exploration',
                rule="every supported cell (incl. grad-free Milstein, log-ODE with Davie and Foster) x programs x "
                     "ts with 2 and 4 output times (interior times unaligned) x dt aligned/unaligned x fixed/adaptive "
                     "(loose tolerances: step-size factor saturated, schedule asserted unchanged under perturbation): "
                     "full Jacobian d ys/d(y0, every parameter entry) by backprop vs central differences (2e-6 "
                     "relative); distinct (cell, program, ts, dt, adaptive, levy)")
    units = [dict(cell=list(c), tier=tier, entropy=80 + seed) for c in zoo.cells()]
    for part in pmap(unit_fn, units):
        chk.merge(part)
    chk.assumptions = ["float64 central differences with step 1e-6; Brownian object held fixed (C05)"]
    return chk


if __name__ == '__main__':
    main(run)
