"""C16 - equivalent SDE interfaces give identical solutions; derived operators are exact (engines C+D)."""
import itertools
import warnings

import torch
from torch import nn

import torchsde
from torchsde._core.base_sde import ForwardSDE
from torchsde._core import misc

from .. import zoo
from ..core import Check, pmap, main
from ..explore import Out

METHS = ('f', 'g', 'f_and_g', 'g_prod', 'f_and_g_prod')
RENAME = {'f': ('drift', 'my_drift'), 'g': ('diffusion', 'my_diffusion'),
          'f_and_g': ('drift_and_diffusion', 'my_fg'), 'f_and_g_prod': ('drift_and_diffusion_prod', 'my_fgp')}


def subsets():
    out = []
    for r in range(1, 6):
        for s in itertools.combinations(METHS, r):
            has_f = any(m in s for m in ('f', 'f_and_g', 'f_and_g_prod'))
            has_g = any(m in s for m in ('g', 'f_and_g', 'g_prod', 'f_and_g_prod'))
            if has_f and has_g:
                out.append(s)
    return out


class Variant(nn.Module):
    """Exposes a chosen subset of the interface, all describing the same functions as `prog`."""

    def __init__(self, prog, subset, rename):
        super().__init__()
        self.prog = prog
        self.noise_type = prog.noise_type
        self.sde_type = prog.sde_type
        impl = {'f': self._f, 'g': self._g, 'f_and_g': self._f_and_g, 'g_prod': self._g_prod,
                'f_and_g_prod': self._f_and_g_prod}
        self.names = {}
        for m in subset:
            if rename and m in RENAME:
                key, new = RENAME[m]
                setattr(self, new, impl[m])
                self.names[key] = new
            else:
                setattr(self, m, impl[m])

    def _prod(self, g, v):
        return g * v if self.noise_type == 'diagonal' else misc.batch_mvp(g, v)

    def _f(self, t, y):
        return self.prog.f(t, y)

    def _g(self, t, y):
        return self.prog.g(t, y)

    def _f_and_g(self, t, y):
        return self.prog.f(t, y), self.prog.g(t, y)

    def _g_prod(self, t, y, v):
        return self._prod(self.prog.g(t, y), v)

    def _f_and_g_prod(self, t, y, v):
        return self.prog.f(t, y), self._prod(self.prog.g(t, y), v)


EXPLICIT = ('has not been provided', 'must define at least one', 'Cannot infer noise size', 'not defined',
            'requires', 'required')


def interface_unit(unit):
    out = Out()
    cell = tuple(unit['cell'])
    st, nt, method, opts = cell
    d, m = (2, 2) if nt != 'scalar' else (2, 1)
    prog = zoo.Prog(nt, st, d, m, 1 if nt in ('scalar', 'general') else 0)
    y0 = zoo.y0_for(prog, 2)
    ts = torch.tensor([0., 0.3, 0.5], dtype=torch.float64)
    levy = zoo.levy_for(method)
    with torch.no_grad(), warnings.catch_warnings():
        warnings.simplefilter('ignore')
        bm = zoo.make_bm(prog, 2, levy, unit['entropy'], t1=0.5)
        ref = torchsde.sdeint(Variant(prog, ('f', 'g'), False), y0, ts, bm=bm, method=method, dt=0.125,
                              options=dict(opts))
        for subset in subsets():
            for rename in (False, True):
                v = Variant(prog, subset, rename)
                label = dict(cell=zoo.cell_name(cell), methods=list(subset), renamed=rename)
                out.count('executions')
                try:
                    ys = torchsde.sdeint(v, y0, ts, bm=bm, method=method, dt=0.125, options=dict(opts),
                                         names=v.names if rename else None)
                except (RuntimeError, ValueError, AttributeError, NotImplementedError) as e:
                    msg = str(e)
                    if isinstance(e, (RuntimeError, ValueError)) and any(k in msg for k in EXPLICIT):
                        out.keys.add(('explicit-error', zoo.cell_name(cell), subset, rename))
                        out.count('explicit_errors')
                    else:
                        out.violation(dict(kind='interface_error', cell=zoo.cell_name(cell), methods=str(subset)),
                                      f"{label}: failed with {type(e).__name__}: {msg[:150]} - not an explicit "
                                      f"'method missing' error", dict(engine='C-c16', entropy=unit['entropy'], **label))
                    continue
                if ys.shape != ref.shape or not torch.equal(ys, ref):
                    dd = float((ys - ref).abs().max()) if ys.shape == ref.shape else 'shape'
                    out.violation(dict(kind='interface_value', cell=zoo.cell_name(cell), methods=str(subset)),
                                  f"{label}: solution differs from the (f,g) variant by {dd}",
                                  dict(engine='C-c16', entropy=unit['entropy'], **label))
                else:
                    out.keys.add(('same', zoo.cell_name(cell), subset, rename))
                    out.count('identical_solutions')
    out.sample(dict(cell=zoo.cell_name(cell), interface_subsets=len(subsets()), renamed_variants=True), limit=1)
    return out.pack()


# ---- derived operators -------------------------------------------------------------------------------
def jac_rows(fn, y):
    """Per batch row Jacobian d fn(y)[b] / d y[b] using explicit autograd.functional.jacobian."""
    outs = []
    for b in range(y.shape[0]):
        yb = y[b:b + 1]
        J = torch.autograd.functional.jacobian(lambda z: fn(z)[0], yb)  # shape out.shape + (1, d)
        outs.append(J.squeeze(-2))
    return torch.stack(outs)


def operators_unit(unit):
    out = Out()
    nt, st = unit['nt'], unit['st']
    tol = 1e-11
    for name, prog in zoo.programs(nt, st, 'thorough'):
        fsde = ForwardSDE(prog)
        fsde_fast = ForwardSDE(prog, fast_dg_ga_jvp_column_sum=True)
        for seed, t in itertools.product(range(2), (0.0, 0.7)):
            B = 2
            y = zoo.y0_for(prog, B, seed)
            gen = torch.Generator().manual_seed(seed)
            mm = prog.d if nt == 'diagonal' else prog.m
            v1 = torch.randn(B, mm, dtype=torch.float64, generator=gen)
            v2 = torch.randn(B, mm, dtype=torch.float64, generator=gen)
            A = torch.randn(B, mm, mm, dtype=torch.float64, generator=gen)
            A = A - A.transpose(-1, -2)
            tt = torch.tensor(t, dtype=torch.float64)
            g = prog.g(tt, y)
            G = torch.diag_embed(g) if nt == 'diagonal' else g  # (B,d,m)
            J = jac_rows(lambda z: (torch.diag_embed(prog.g(tt, z)) if nt == 'diagonal' else prog.g(tt, z)), y)
            # J[b,i,l,j] = d G[b,i,l] / d y[b,j]
            label = dict(program=name, sde_type=st, t=t, seed=seed)

            def bad(kind, detail):
                out.violation(dict(kind=kind, noise_type=nt, program=name), detail, dict(engine='D-c16', **label))

            # g_prod
            ref = torch.einsum('bil,bl->bi', G, v1)
            got = fsde.g_prod(tt, y, v1)
            out.count('executions')
            if float((got - ref).abs().max()) > tol:
                bad('g_prod', f"g_prod differs from sum_l g_il v_l by {float((got - ref).abs().max())}")
            # Milstein term: sum_{j,l} dg_il/dy_j g_jl v_l
            ref_gdg = torch.einsum('bilj,bjl,bl->bi', J, G, v2)
            gp, gdg = fsde.g_prod_and_gdg_prod(tt, y, v1, v2)
            out.count('executions')
            if nt == 'additive':
                if not (isinstance(gdg, float) and gdg == 0.) and float(torch.as_tensor(gdg).abs().max()) > tol:
                    bad('gdg_prod', "additive noise: Milstein term is not zero")
            elif nt != 'general':
                err = float((gdg - ref_gdg).abs().max())
                if err > tol * max(1.0, float(ref_gdg.abs().max())):
                    bad('gdg_prod', f"g dg v term differs from sum_(j,l) dg_il/dy_j g_jl v_l by {err} "
                        f"(got {gdg[0].tolist()}, definition {ref_gdg[0].tolist()})")
                else:
                    out.keys.add(('gdg', name, t, seed))
            if float((gp - ref).abs().max()) > tol:
                bad('g_prod', "g_prod returned with the Milstein term differs from its definition")
            # Levy-area Jacobian term: sum_{j,k,l} dg_il/dy_j g_jk A_kl
            if nt == 'general':
                ref_l = torch.einsum('bilj,bjk,bkl->bi', J, G, A)
                for nm, s in (('v1', fsde), ('v2', fsde_fast)):
                    got = s.dg_ga_jvp_column_sum(tt, y, A)
                    out.count('executions')
                    err = float((got - ref_l).abs().max())
                    if err > tol * max(1.0, float(ref_l.abs().max())):
                        bad('dg_ga_' + nm, f"dg_ga_jvp_column_sum_{nm} differs from its definition by {err}")
                    else:
                        out.keys.add(('dgga', nm, name, t, seed))
            else:
                z = fsde.dg_ga_jvp_column_sum(tt, y, A)
                if not (isinstance(z, float) and z == 0.) and float(torch.as_tensor(z).abs().max()) > 0:
                    # commutative noise: the Levy-area term vanishes identically
                    ref_l = torch.einsum('bilj,bjk,bkl->bi', J, G, A)
                    if float((torch.as_tensor(z) - ref_l).abs().max()) > tol:
                        bad('dg_ga', "Levy-area Jacobian term for special noise differs from its definition")
            # differentiability of the derived operators when grad is enabled, none when disabled
            with torch.no_grad():
                gp2, gdg2 = fsde.g_prod_and_gdg_prod(tt, y, v1, v2)
                if torch.is_tensor(gdg2) and gdg2.grad_fn is not None:
                    bad('graph', "g_prod_and_gdg_prod leaves a graph under no_grad")
    out.sample(dict(noise_type=nt, sde_type=st, programs=[n for n, _ in zoo.programs(nt, st, 'thorough')]), limit=1)
    return out.pack()


def dispatch(unit):
    return interface_unit(unit) if unit['what'] == 'interface' else operators_unit(unit)


def run(tier, seed):
    chk = Check('C16', tier, seed, 'exploration',
                rule="every subset of {f,g,f_and_g,g_prod,f_and_g_prod} defining drift and diffusion (27), plain and "
                     "renamed through `names`, x every supported cell: torch.equal to the (f,g) variant or an "
                     "explicit method-missing error; derived operators vs einsum definitions from explicit "
                     "Jacobians on programs with non-symmetric Jacobians; non-trivial = distinct "
                     "(cell,subset,rename) with identical solution or explicit error, distinct operator cases")
    units = [dict(what='interface', cell=list(c), entropy=160 + seed) for c in zoo.cells()]
    for nt, st in itertools.product(zoo.NOISE_TYPES, zoo.SDE_TYPES):
        units.append(dict(what='operators', nt=nt, st=st))
    for part in pmap(dispatch, units):
        chk.merge(part)
    return chk


if __name__ == '__main__':
    main(run)
