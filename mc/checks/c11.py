"""C11 - adjoint SDE vector fields are the exact vector-Jacobian products (engine D).

Oracle (independent derivation, not the library's formulas): the augmented *Stratonovich* adjoint fields
  b(z)       = (-f~, a^T df~/dy, a^T df~/dtheta),        f~ = f - 1/2 sum_k Dg_k g_k for Ito, f for Stratonovich
  sigma_k(z) = (-g_k, a^T dg_k/dy, a^T dg_k/dtheta)      one per independent Brownian component k = (batch row, channel)
and, for Ito, the generic conversion of the augmented system  b + 1/2 sum_k Dsigma_k sigma_k  (explicit Jacobians
in z); the diagonal Milstein term is sum_k Dsigma_k sigma_k v_k.
"""
import itertools

import torch

from torchsde._core.adjoint_sde import AdjointSDE
from torchsde._core.base_sde import ForwardSDE

from .. import zoo
from ..core import Check, pmap, main
from ..explore import Out


def flat(ts):
    return torch.cat([t.reshape(-1) for t in ts])


class Oracle:
    def __init__(self, prog, params, B, t):
        self.prog, self.params, self.B, self.t = prog, params, B, t
        self.d = prog.d
        self.nt = prog.noise_type
        self.m = prog.d if self.nt == 'diagonal' else prog.m

    def split(self, z):
        n = self.B * self.d
        return z[:n].reshape(self.B, self.d), z[n:2 * n].reshape(self.B, self.d)

    def G(self, y):
        g = self.prog.g(self.t, y)
        return torch.diag_embed(g) if self.nt == 'diagonal' else g  # (B,d,m)

    def f_strat(self, y):
        f = self.prog.f(self.t, y)
        if self.prog.sde_type == 'stratonovich' or self.nt == 'additive':
            return f
        # f~ = f - 1/2 sum_k Dg_k g_k   (explicit Jacobian, per row)
        corr = []
        for b in range(self.B):
            yb = y[b:b + 1]
            J = torch.autograd.functional.jacobian(lambda q: self.G(q)[0], yb, create_graph=True).squeeze(-2)  # (d,m,d)
            Gb = self.G(yb)[0]
            corr.append(torch.einsum('ikj,jk->i', J, Gb))
        return f - 0.5 * torch.stack(corr)

    def _vjps(self, scalar, y):
        gs = torch.autograd.grad(scalar, [y] + self.params, create_graph=True, allow_unused=True)
        return [torch.zeros_like(x) if g is None else g for g, x in zip(gs, [y] + self.params)]

    def b(self, z):
        y, a = self.split(z)
        if not y.requires_grad:
            y = y.requires_grad_(True)
        ft = self.f_strat(y)
        v = self._vjps((a * ft).sum(), y)
        return flat([-ft] + v)

    def sigma(self, z, row, k):
        y, a = self.split(z)
        if not y.requires_grad:
            y = y.requires_grad_(True)
        Gk = self.G(y)[:, :, k]  # (B,d)
        mask = torch.zeros(self.B, 1, dtype=z.dtype)
        mask[row] = 1.
        Gk = Gk * mask
        v = self._vjps((a * Gk).sum(), y)
        return flat([-Gk] + v)

    def components(self):
        return [(r, k) for r in range(self.B) for k in range(self.m)]

    def drift(self, z):
        """What the adjoint solve must integrate as drift, in the SDE's own calculus."""
        out = self.b(z)
        if self.prog.sde_type == 'ito' and self.nt != 'additive':
            n2 = 2 * self.B * self.d
            for (r, k) in self.components():
                fn = lambda q: self.sigma(torch.cat([q, z[n2:]]), r, k)
                J = torch.autograd.functional.jacobian(fn, z[:n2].detach())  # (N, n2)
                s = self.sigma(z, r, k)
                out = out + 0.5 * J @ s[:n2]
        return out

    def g_prod(self, z, v):
        out = 0.
        for (r, k) in self.components():
            out = out + self.sigma(z, r, k) * v[r, k]
        return out

    def gdg_prod(self, z, v):
        n2 = 2 * self.B * self.d
        out = 0.
        for (r, k) in self.components():
            fn = lambda q: self.sigma(torch.cat([q, z[n2:]]), r, k)
            J = torch.autograd.functional.jacobian(fn, z[:n2].detach())
            s = self.sigma(z, r, k)
            out = out + (J @ s[:n2]) * v[r, k]
        return out


def unit_fn(unit):
    out = Out()
    st, nt = unit['st'], unit['nt']
    tol = 1e-10
    for (pname, prog), pset in itertools.product(zoo.programs(nt, st, unit['tier']), ('all', 'drift_only', 'with_unused')):
        B = 2
        allp = dict(prog.named_parameters())
        if pset == 'all':
            params = [p for p in prog.parameters() if p.requires_grad]
        elif pset == 'drift_only':
            params = [allp['theta_f']]
        else:
            params = [allp['unused'], allp['psi'], allp['theta_g']]
        fsde = ForwardSDE(prog)
        for seed, tval in itertools.product(range(unit['nstates']), (-0.3, -0.8)):
            gen = torch.Generator().manual_seed(seed + 17)
            y = zoo.y0_for(prog, B, seed)
            a = torch.randn(B, prog.d, dtype=torch.float64, generator=gen)
            ap = [torch.randn_like(p) for p in params]
            shapes = [y.size(), a.size()] + [p.size() for p in params]
            z = flat([y, a] + ap).detach()
            adj = AdjointSDE(fsde, params, shapes)
            tau = torch.tensor(tval, dtype=torch.float64)  # adjoint time; forward time is -tau
            orc = Oracle(prog, params, B, -tau)
            mm = prog.d if nt == 'diagonal' else prog.m
            label = dict(sde_type=st, noise_type=nt, program=pname, params=pset, seed=seed, tau=tval)
            n_ya = 2 * B * prog.d

            def cmp(kind, got, ref):
                out.count('executions')
                got = got.reshape(-1)
                ref = ref.detach().reshape(-1)
                err = float((got - ref).abs().max())
                if err > tol * max(1.0, float(ref.abs().max())):
                    i = int((got - ref).abs().argmax())
                    part = 'state' if i < B * prog.d else ('adjoint' if i < n_ya else 'params')
                    out.violation(dict(kind=kind, sde_type=st, noise_type=nt, part=part),
                                  f"{label}: {kind} differs from the prescribed field by {err} in the {part} part "
                                  f"(index {i}: got {float(got[i])}, expected {float(ref[i])})",
                                  dict(engine='D-c11', **label))
                    return False
                out.keys.add((kind, st, nt, pname, pset, seed, tval))
                return True

            z_aug = z.clone().unsqueeze(0)
            with torch.no_grad():
                got_f = adj.f(tau, z_aug)
                if got_f.grad_fn is not None or got_f.requires_grad:
                    out.violation(dict(kind='graph_no_grad', sde_type=st, noise_type=nt),
                                  f"{label}: adjoint drift carries an autograd graph under no_grad", dict(engine='D-c11', **label))
            ref_f = orc.drift(z.clone())
            cmp('drift', got_f, ref_f)
            for vs in range(2):
                v = torch.randn(B, mm, dtype=torch.float64, generator=gen)
                with torch.no_grad():
                    got_g = adj.g_prod(tau, z_aug, v)
                    f2, g2 = adj.f_and_g_prod(tau, z_aug, v)
                    if got_g.requires_grad or g2.requires_grad or f2.requires_grad:
                        out.violation(dict(kind='graph_no_grad', sde_type=st, noise_type=nt),
                                      f"{label}: adjoint g_prod carries a graph under no_grad", dict(engine='D-c11', **label))
                ref_g = orc.g_prod(z.clone(), v)
                cmp('g_prod', got_g, ref_g)
                cmp('f_and_g_prod.f', f2, ref_f)
                cmp('f_and_g_prod.g', g2, ref_g)
                if nt == 'diagonal':
                    v1 = torch.randn(B, mm, dtype=torch.float64, generator=gen)
                    with torch.no_grad():
                        gp, gdg = adj.g_prod_and_gdg_prod(tau, z_aug, v1, v)
                    cmp('milstein.g_prod', gp, orc.g_prod(z.clone(), v1))
                    cmp('milstein.gdg_prod', gdg, orc.gdg_prod(z.clone(), v))
            # differentiable when gradients are enabled: derivative through the output vs central differences
            if unit['tier'] != 'quick' or seed == 0:
                w = torch.randn(z.numel(), dtype=torch.float64, generator=gen)
                v = torch.randn(B, mm, dtype=torch.float64, generator=gen)
                for kind, fn in (('drift', lambda q: adj.f(tau, q)), ('g_prod', lambda q: adj.g_prod(tau, q, v))):
                    zz = z.clone().unsqueeze(0).requires_grad_(True)
                    with torch.enable_grad():
                        o = fn(zz)
                        if not o.requires_grad:
                            out.violation(dict(kind='not_differentiable', sde_type=st, noise_type=nt, field=kind),
                                          f"{label}: adjoint {kind} is not differentiable with gradients enabled",
                                          dict(engine='D-c11', **label))
                            continue
                        gr, = torch.autograd.grad((o.reshape(-1) * w).sum(), zz, allow_unused=True)
                        if gr is None:
                            gr = torch.zeros_like(zz)
                    eps = 1e-6
                    fd = torch.zeros_like(gr)
                    with torch.no_grad():
                        for i in range(n_ya):
                            e = torch.zeros_like(zz)
                            e[0, i] = eps
                            fd[0, i] = (((fn((zz + e).detach()) - fn((zz - e).detach())).reshape(-1) * w).sum()) / (2 * eps)
                    out.count('executions')
                    err = float((gr[0, :n_ya] - fd[0, :n_ya]).abs().max())
                    if err > 1e-5 * max(1.0, float(fd.abs().max())):
                        out.violation(dict(kind='second_derivative', sde_type=st, noise_type=nt, field=kind),
                                      f"{label}: derivative through adjoint {kind} differs from finite differences "
                                      f"by {err}", dict(engine='D-c11', **label))
                    else:
                        out.keys.add(('diff', kind, st, nt, pname, pset, seed, tval))
    out.sample(dict(sde_type=st, noise_type=nt, programs=[n for n, _ in zoo.programs(nt, st, unit['tier'])]), limit=1)
    return out.pack()


def run(tier, seed):
    chk = Check('C11', tier, seed, 'exploration',
                rule="2 x 4 (sde_type, noise_type) x programs of the alphabet x parameter sets {all, drift-only, incl. "
                     "an unused parameter} x augmented states (y,a,a_theta) x adjoint times x probe vectors v: "
                     "AdjointSDE.f / g_prod / f_and_g_prod / g_prod_and_gdg_prod compared elementwise (1e-10) with the "
                     "independently derived fields; graph discipline; distinct (field, cell, program, params, state)")
    units = [dict(st=st, nt=nt, tier=tier, nstates=2 if tier == 'quick' else 4)
             for st, nt in itertools.product(zoo.SDE_TYPES, zoo.NOISE_TYPES)]
    for part in pmap(unit_fn, units):
        chk.merge(part)
    chk.assumptions = ["torch.autograd computes first derivatives of the user program correctly (the oracle uses it "
                       "through explicit Jacobians of independently written formulas)"]
    return chk


if __name__ == '__main__':
    main(run)
