"""C12 - outputs lie on one dt-grid trajectory: interpolation and output-time invariance (engine B)."""
import itertools

from .. import loop_machine as lm
from .. import zoo
from ..core import Check, pmap, main


def dispatch(unit):
    return lm.c12_list_unit(unit) if unit['what'] == 'list' else lm.c12_unit(unit)


def run(tier, seed):
    chk = Check('C12', tier, seed, 'exploration',
                rule="all subsets (size>=2) of a dyadic time lattice as ts x dt in {1/8,1/4,3/8,1/2,2} x every "
                     "supported (sde_type, noise_type, method, options) cell x float32/float64 x ts as tensor/list; "
                     "oracle = grid trajectory from the solver's own step; a case is non-trivial when at least one "
                     "output time falls strictly inside a step (distinct (cell,dtype,ts,dt))")
    if tier == 'quick':
        lattice = [0., 0.125, 0.25, 0.5, 0.75, 1.0]
        dts = [0.125, 0.375, 0.5, 2.0]
    else:
        lattice = [i / 8 for i in range(9)]
        dts = [0.125, 0.25, 0.375, 0.5, 2.0]
    units = []
    for cell in zoo.cells():
        for dtype in ('float64', 'float32'):
            if tier == 'quick' and dtype == 'float32' and cell[3].get('grad_free'):
                continue
            for dt in dts:
                # the 3/8 runs use a lattice that straddles t = 0 (negative output times, ts[0] < 0 < ts[-1])
                lat = [t - 0.5 for t in lattice] if dt == 0.375 else lattice
                units.append(dict(cell=list(cell), dtype=dtype, lattice=lat, dts=[dt], entropy=120 + seed,
                                  aslist=[False, True] if dt in (0.375, 0.125) or tier != 'quick' else [False]))
    units = [dict(u, what='lattice') for u in units]
    for cell in zoo.cells():
        units.append(dict(what='list', cell=list(cell), entropy=120 + seed))
    chk.count('work_units', len(units))
    chk.count('cells', len(zoo.cells()))
    for part in pmap(dispatch, units):
        chk.merge(part)
    chk.expect('executions', len(units) * 8)
    chk.assumptions = ["dyadic times, so the harness's grid equals the library's bit-for-bit",
                       "float32 interpolants compared to 2e-5 relative, float64 to 1e-12"]
    return chk


if __name__ == '__main__':
    main(run)
