"""C07 - Brownian objects answer every valid query: no crash, bounded stack and cache.

Engine A meters on every transition: no exception for in-range queries, node-creation work budget (deterministic
stand-in for non-termination), frame depth at node creation, cache entries <= cache_size.
Two enumerations: (i) the full constructor product x micro histories incl. sub-tolerance / 1-ulp queries and a
solver-shaped sweep across the warm-up; (ii) the step-count ladder through sdeint itself.
"""
import itertools
import math
import sys

import torch

import torchsde

from .. import bm_machine as bmm
from .. import explore as ex
from .. import seams
from ..core import Check, pmap, main

KINDS = ('budget', 'exception', 'cache', 'stack', 'nonfinite')


def constructor_product(tier):
    sizes = [(2, 2)] if tier == 'quick' else [(), (2,), (2, 2)]
    levys = ['none', 'space-time', 'davie', 'foster']
    caches = [0, 1, 2, 45, None]
    out = []
    for size, levy, cache, given in itertools.product(sizes, levys, caches,
                                                      ['none', 'WH'] if tier == 'quick' else ['none', 'W', 'WH']):
        for dt, tol in itertools.product([None, 0.25, 1 / 16, 1e-3], [0., 0.1, 0.01]):
            out.append(bmm.cfg_make(size=size, levy=levy, cache_size=cache, dt=dt, tol=tol, given=given))
        for tol in (0.1, 0.01):
            out.append(bmm.cfg_make(size=size, levy=levy, cache_size=cache, tol=tol, halfway=True, given=given))
    # documented-valid hints that are small relative to the tolerance
    for dt, tol in [(1e-5, 1e-3), (1e-4, 1e-2), (1e-3, 0.1)]:
        for cache in (1, 45):
            out.append(bmm.cfg_make(size=(2, 2), cache_size=cache, dt=dt, tol=tol))
    # intervals not starting at 0
    for levy, cache, (dt, tol, hw) in itertools.product(['none', 'foster'], [0, 1, 45, None],
                                                        [(None, 0., False), (0.25, 0., False), (None, 0.1, True),
                                                         (0.25, 0.1, False)]):
        out.append(bmm.cfg_make(size=(2, 2), levy=levy, cache_size=cache, dt=dt, tol=tol, halfway=hw, t0=-1., t1=1.))
        out.append(bmm.cfg_make(size=(2, 2), levy=levy, cache_size=cache, dt=dt, tol=tol, halfway=hw, t0=1., t1=3.))
    return out


def given_for(cfg):
    if cfg['given'] == 'none':
        return None
    g = torch.Generator().manual_seed(7)
    W = torch.randn(cfg['size'], dtype=torch.float64, generator=g)
    H = torch.randn(cfg['size'], dtype=torch.float64, generator=g)
    return (W if cfg['given'] in ('W', 'WH') else None, H if cfg['given'] == 'WH' else None)


class _SDE(torch.nn.Module):
    noise_type = 'diagonal'
    sde_type = 'ito'

    def f(self, t, y):
        return -y

    def g(self, t, y):
        return 0.1 + 0.0 * y


def sdeint_unit(unit):
    """One rung of the step-count ladder through sdeint itself, under the work/stack meters."""
    out = ex.Out()
    kind, N, dtype_name, T = unit['bm'], unit['N'], unit['dtype'], unit['T']
    dtype = getattr(torch, dtype_name)
    y0 = torch.ones(1, 1, dtype=dtype)
    dt = unit.get('dt') or T / N
    ts = [0., T]
    label = dict(bm=kind, N=N, dtype=dtype_name, T=T, dt=dt)
    meters = seams.Meters(budget=unit.get('budget', 2_000_000))
    sys.setrecursionlimit(1000)
    with meters:
        meters.reset()
        try:
            if kind == 'default':
                bm = None
            elif kind == 'tree':
                bm = torchsde.BrownianTree(t0=0., w0=torch.zeros(1, 1, dtype=dtype), t1=T, entropy=5)
            elif kind == 'path':
                bm = torchsde.BrownianPath(t0=0., w0=torch.zeros(1, 1, dtype=dtype))
            elif kind == 'hinted':
                bm = torchsde.BrownianInterval(t0=0., t1=T, size=(1, 1), dtype=dtype, dt=dt, entropy=5)
            elif kind == 'interval_c0':
                bm = torchsde.BrownianInterval(t0=0., t1=T, size=(1, 1), dtype=dtype, cache_size=0, entropy=5)
            elif kind == 'interval_tol':
                bm = torchsde.BrownianInterval(t0=0., t1=T, size=(1, 1), dtype=dtype, tol=1e-6, entropy=5)
            rec = None
            if bm is not None:
                bm = rec = seams.RecordingBM(bm)
            ys = torchsde.sdeint(_SDE(), y0, ts, bm=bm, dt=dt, method='euler')
            out.count('ladder_runs_completed')
            if rec is not None:
                out.count('transitions', len(rec.log))
                last = rec.log[-1]
                if last[1] - last[0] < 0.5 * dt:
                    out.count('ladder_runs_with_short_residual_step')
            else:
                out.count('transitions', N)
            if not torch.isfinite(ys).all():
                out.violation(dict(kind='exception', exc='nonfinite', via='sdeint', **label), "non-finite result",
                              dict(engine='A-sdeint', **label))
        except seams.WorkBudgetExceeded as e:
            out.violation(dict(kind='budget', exc='WorkBudgetExceeded', via='sdeint', bm=kind, dtype=dtype_name,
                               short_last_step=True),
                          f"sdeint(ts=[0,{T}], dt={dt}, bm={kind}, {dtype_name}): {e} (does not return)",
                          dict(engine='A-sdeint', **label))
        except (RecursionError, AttributeError, ZeroDivisionError, KeyError, IndexError, TypeError, RuntimeError,
                AssertionError, ValueError) as e:
            out.violation(dict(kind='exception', exc=type(e).__name__, via='sdeint', bm=kind, dtype=dtype_name,
                               many_steps=bool(N >= 1000)),
                          f"sdeint(ts=[0,{T}], dt={dt}, bm={kind}, {dtype_name}) raised {type(e).__name__}: "
                          f"{str(e)[:150]}", dict(engine='A-sdeint', **label))
    out.count('executions')
    out.mx('max_frame_depth', meters.max_depth)
    out.mx('max_nodes_per_call', meters.nodes)
    bound = 200 + 8 * math.ceil(math.log2(max(N, 2))) + 8 * 20
    if meters.max_depth > bound:
        out.violation(dict(kind='stack', exc='frame_depth', via='sdeint', bm=kind, dtype=dtype_name),
                      f"frame depth {meters.max_depth} at node creation for N={N} steps (allowance {bound})",
                      dict(engine='A-sdeint', **label))
    out.keys.add(('ladder', kind, N, dtype_name, T, dt))
    out.sample(dict(sdeint_ladder=label, frame_depth=meters.max_depth), limit=1)
    return out.pack()


def run_unit(unit):
    if unit['kind'] == 'sdeint':
        return sdeint_unit(unit)
    return ex.run_unit(unit)


def run(tier, seed):
    chk = Check('C07', tier, seed, 'model_checking',
                rule="every public call on every explored object is metered: exception classes, tree nodes created "
                     "per call (work budget = non-termination detector), Python frame depth at node creation, "
                     "cache entries; states are canonical tree/cache/cursor keys over the full constructor "
                     "product; ladder runs go through sdeint itself")
    entropy = 7000 + seed
    units = []
    for cfg in constructor_product(tier):
        grid = [0., 0.25, 1 / 3, 1.0] if cfg['tol'] == 0 else [0., 0.2, 0.5, 1.0]
        if cfg['t0'] != 0.:
            grid = bmm.shift_grid([0., 0.25, 0.5, 1.0] if cfg['tol'] == 0 else [0., 0.2, 0.5, 1.0], cfg['t0'], cfg['t1'])
        ops = bmm.grid_ops(grid, point_eval=(cfg['t0'] != 0.)) + bmm.edge_ops(grid, cfg['tol'])
        units += ex.bfs_units(cfg, entropy, ops, 2, given=given_for(cfg), kinds=KINDS)
        units += ex.dev_units(cfg, entropy, 130, 0, nchunks=1, given=given_for(cfg), kinds=KINDS)
    core = [bmm.cfg_make(size=(2, 2), levy=levy, cache_size=cache, dt=dt, tol=tol, halfway=hw)
            for levy, cache, dt, tol, hw in [('space-time', 45, None, 0., False), ('none', 0, None, 0., False),
                                             ('foster', 1, None, 0., False), ('none', 45, None, 1e-4, True),
                                             ('space-time', 45, None, 1e-3, False),
                                             ('space-time', 2, 1 / 130, 0., False)]]
    Ns = [8, 130] if tier == 'quick' else [8, 130, 400]
    for cfg in core:
        for N in Ns:
            D = 2 if N == 8 else 1
            units += ex.dev_units(cfg, entropy, N, D, nchunks=8 if N == 8 else 24, kinds=KINDS)
    # tens of thousands of consecutive small steps forward and then backward (through ReverseBrownian), on the object
    long_cfgs = [(bmm.cfg_make(size=(1, 1), levy='none', cache_size=45), 25000),
                 (bmm.cfg_make(size=(1, 1), levy='space-time', cache_size=45), 25000),
                 (bmm.cfg_make(size=(1, 1), levy='foster', cache_size=45, dt=1 / 25000), 25000),
                 (bmm.cfg_make(size=(1, 1), levy='none', cache_size=1), 3000),
                 (bmm.cfg_make(size=(1, 1), levy='none', cache_size=None), 25000),
                 (bmm.cfg_make(wrapper='tree', size=(1, 1), tol=0.), 5000),
                 (bmm.cfg_make(wrapper='path', size=(1, 1), cache_size=None), 25000),
                 (bmm.cfg_make(size=(1, 1), levy='space-time', cache_size=45, t0=-1., t1=1.), 25000),
                 # a dt hint far coarser than the steps actually taken: a chain-shaped tree, ancestors evicted on the way back
                 (bmm.cfg_make(size=(1, 1), levy='space-time', cache_size=45, dt=0.5), 1500),
                 (bmm.cfg_make(size=(1, 1), levy='none', cache_size=10, dt=0.5), 1500)]
    if tier == 'thorough':
        # (a thorough run with every sweep at full length and cache_size=0 at 3000 steps did not finish in 2 h on 16
        # cores: without a cache every query recomputes along the whole chain, O(N^2))
        long_cfgs = [(c, N if i in (0, 1, 2, 4, 7) else min(N, 3000)) for i, (c, N) in enumerate(long_cfgs)]
        long_cfgs += [(bmm.cfg_make(size=(1, 1), levy='space-time', cache_size=45), 60000),
                      (bmm.cfg_make(size=(1, 1), levy='none', cache_size=0), 600)]
    else:
        # quick: the two cheapest 25000-step sweeps and short versions of the others (each query of a 25000-step
        # sweep is re-checked against its first answer and metered: ~0.5 ms per query)
        long_cfgs = [(c, N if i in (0, 4) else min(N, 1500)) for i, (c, N) in enumerate(long_cfgs)]
    for cfg, N in long_cfgs:
        units.append(dict(kind='dev', cfg=cfg, entropy=entropy, N=N, devsets=[[]], kinds=KINDS, budget=2_000_000))
    # ladder through sdeint
    ladder_N = [10, 100, 101, 1000, 25000] if tier == 'quick' else [10, 100, 101, 1000, 25000, 60000]
    for kind, N, dtype in itertools.product(['default', 'hinted', 'path', 'tree', 'interval_c0', 'interval_tol'],
                                            ladder_N, ['float32', 'float64']):
        if kind in ('tree', 'interval_tol') and N > 25000:
            continue
        if kind == 'interval_c0' and N > (1000 if tier == 'quick' else 25000):
            continue  # without a cache every query recomputes from the root: 25000 steps take ~200 s
        units.append(dict(kind='sdeint', bm=kind, N=N, dtype=dtype, T=1.0))
    # the actual residual last step floating-point accumulation produces
    for T, k in itertools.product([1.0, 10.0], [1, 2, 3, 5, 7]):
        for j in (1, 2):
            dt = k * 10.0 ** (-j)
            if T / dt > 2000:
                continue
            for kind in ('default', 'tree', 'hinted', 'interval_tol'):
                for dtype in ('float32', 'float64'):
                    units.append(dict(kind='sdeint', bm=kind, N=int(round(T / dt)), dtype=dtype, T=T, dt=dt))
    units.sort(key=lambda u: -(u.get('N', 0) if u['kind'] == 'sdeint' else (u.get('N', 0) if u.get('N', 0) > 1000 else 100 * u.get('N', 0) * (len(u.get('devsets', [])) > 1))))
    ex.selfcheck_determinism(entropy)
    chk.count('determinism_selfcheck_passed')
    chk.count('work_units', len(units))
    for part in pmap(run_unit, units):
        chk.merge(part)
    chk.expect('executions', len(units))
    chk.assumptions = ["'does not return' is decided by a node-creation budget per public call, not wall clock",
                       "histories: micro product depth 2 incl. 1-ulp/sub-tolerance queries, sweeps of 130..60000 "
                       "steps, <=2 deviations"]
    return chk


if __name__ == '__main__':
    main(run)
