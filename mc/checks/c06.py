"""C06 - seeded reproducibility; query-order independence in dyadic-tree mode.

Engine A.  (1) twin: every explored history is replayed on a second fresh object with the same entropy and options,
all answers bit-identical.  (2) dyadic mode (halfway_tree=True / BrownianTree): the reference model is the dictionary
interval -> answer on a fresh object; after every history the answer to every query of the history equals the
dictionary entry bit-for-bit (histories with different query sets, not permutations).  (3) different entropies give
different answers on every non-degenerate interval.
"""
import itertools

import torch

from .. import bm_machine as bmm
from .. import explore as ex
from .. import bm_invariants as inv
from .. import seams
from ..core import Check, pmap, main

KINDS = ()
_DICT = {}


def _same(x, y):
    for a, b in zip(x, y):
        if (a is None) != (b is None):
            return False
        if a is not None and not torch.equal(a, b):
            return False
    return True


def fresh_answer(cfg, entropy, via, a, b):
    # the memo lives as long as the pool worker and is shared by every unit that worker happens to get: the key must
    # name the object completely (every configuration field, t0 and t1 included), or the dictionary entry of one
    # configuration is served for another and the verdict depends on how the pool dealt the units out
    key = (tuple(sorted((k, repr(v)) for k, v in cfg.items())), entropy, via, bmm.hexf(a), bmm.hexf(b))
    if key not in _DICT:
        _DICT[key] = bmm.Built(cfg, entropy).q(a, b, via)
    return _DICT[key]


def visitor(rp, history, answers, out, opts):
    try:
        _visitor(rp, history, answers, out, opts)
    except (seams.WorkBudgetExceeded, RecursionError, AttributeError, ZeroDivisionError, KeyError, IndexError,
            TypeError, RuntimeError, ValueError, AssertionError) as e:
        # crashes of the object are C07's subject; here they only end the comparison for this state
        out.count('comparisons_aborted_by_exception')


def _visitor(rp, history, answers, out, opts):
    cfg = rp.cfg
    # (1) twin object, same entropy, same sequence (plain objects: no seams needed in real mode)
    twin = bmm.Built(cfg, rp.entropy, *rp.given)
    for (via, a, b), ans in answers:
        v = cfg['via'] if via == 'd0' else via
        t = twin.q(a, b, v)
        out.count('twin_answers_compared')
        if ans is None or not _same(ans, t):
            inv._viol(out, rp, history, 'twin', f"same entropy, same sequence: answer to ({a},{b}) differs between two "
                      f"fresh objects", None)
            return
    # (2) dyadic mode: answers do not depend on the history
    if opts.get('dyadic'):
        for (via, a, b), ans in answers:
            v = cfg['via'] if via == 'd0' else via
            ref = fresh_answer(cfg, rp.entropy, v, a, b)
            out.count('dictionary_comparisons')
            if not _same(ans, ref):
                d = None
                if ans[0].shape == ref[0].shape:
                    d = float((ans[0] - ref[0]).abs().max())
                inv._viol(out, rp, history, 'order', f"dyadic mode: answer to ({a},{b}) after this history differs from "
                          f"the answer on a fresh object (max |dW| = {d})", None)
                return
        # and every grid interval asked now
        for op in opts['final']:
            (via, a, b), = bmm.expand(op)
            v = cfg['via'] if via == 'd0' else via
            ans = rp.query(v, a, b, check_repeat=False)
            ref = fresh_answer(cfg, rp.entropy, v, a, b)
            out.count('dictionary_comparisons')
            if ans is None or not _same(ans, ref):
                inv._viol(out, rp, history, 'order', f"dyadic mode: answer to ({a},{b}) asked after this history "
                          f"differs from the answer on a fresh object", [[a, b]])
                return
    # (3) another entropy: a different path
    if len(history) == 0 and opts.get('entropy_check', True):
        other = bmm.Built(cfg, rp.entropy + 1, *rp.given)
        me = bmm.Built(cfg, rp.entropy, *rp.given)
        for op in opts['final']:
            (via, a, b), = bmm.expand(op)
            # only intervals that are non-degenerate at the resolution of the object (sub-tolerance intervals are
            # zero for every entropy)
            if not (b - a) > max(2 * cfg['tol'], 1e-9) or (cfg['given'] != 'none' and a == cfg['t0'] and b == cfg['t1']):
                continue
            x = me.q(a, b, cfg['via'])
            y = other.q(a, b, cfg['via'])
            out.count('entropy_pairs_compared')
            if torch.equal(x[0], y[0]):
                inv._viol(out, rp, history, 'entropy', f"entropies {rp.entropy} and {rp.entropy + 1} give the same "
                          f"W({a},{b})", [[a, b]])
                return


def configs(tier):
    out = []
    for size, levy, cache, dt in itertools.product([(), (2,), (2, 2)], ['none', 'space-time', 'davie', 'foster'],
                                                   [0, 1, 2, 45, None], [None, 0.25, 1 / 16]):
        out.append((bmm.cfg_make(size=size, levy=levy, cache_size=cache, dt=dt), False))
    for levy in ['none', 'space-time', 'davie', 'foster']:
        for cache in (1, 45):
            out.append((bmm.cfg_make(size=(2, 2), levy=levy, tol=0.1, cache_size=cache), False))
            out.append((bmm.cfg_make(size=(2, 2), levy=levy, tol=0.1, halfway=True, cache_size=cache), True))
            out.append((bmm.cfg_make(size=(2,), levy=levy, tol=0.01, halfway=True, cache_size=cache), True))
    out.append((bmm.cfg_make(wrapper='tree', size=(2, 2), tol=0.01), True))
    out.append((bmm.cfg_make(wrapper='tree', size=(2, 2), tol=0.), True))  # default tol=1e-6
    out.append((bmm.cfg_make(wrapper='tree', size=(2, 2), tol=0.01, via='r'), True))
    for levy, cache in itertools.product(['none', 'foster'], [1, 45]):
        out.append((bmm.cfg_make(size=(2, 2), levy=levy, cache_size=cache, t0=-1., t1=1.), False))
        out.append((bmm.cfg_make(size=(2, 2), levy=levy, cache_size=cache, tol=0.1, halfway=True, t0=-1., t1=1.), True))
    out.append((bmm.cfg_make(wrapper='tree', size=(2, 2), tol=0.01, t0=-1., t1=1.), True))
    out.append((bmm.cfg_make(wrapper='path', size=(2, 2), cache_size=None), False))
    return out


def run(tier, seed):
    chk = Check('C06', tier, seed, 'model_checking',
                rule="state = canonical tree/cache/cursor + (query, answer) set; every history is replayed on a twin "
                     "object (same entropy) and compared bitwise; in dyadic mode every answer in every state is "
                     "compared bitwise with the fresh-object dictionary, so histories with different query sets "
                     "are compared, not only permutations")
    entropy = 6000 + seed
    units = []
    common = dict(visitor='mc.checks.c06.visitor', kinds=KINDS, keymode='answers')
    for cfg, dyadic in configs(tier):
        if cfg['tol'] == 0.1:
            grid = bmm.G5
        elif cfg['tol'] == 0.01:
            grid = [0., 0.13, 0.25, 0.5, 0.77, 1.0]
        else:
            grid = bmm.G4
        grid = bmm.shift_grid(grid, cfg['t0'], cfg['t1'])
        ops = bmm.grid_ops(grid, point_eval=(cfg['wrapper'] != 'interval' or cfg['t0'] != 0.) and cfg['via'] == 'd')
        if dyadic:
            ops = ops + bmm.edge_ops(grid[:3], cfg['tol'])
        units += ex.bfs_units(cfg, entropy, ops, 2, opts=dict(dyadic=dyadic, final=ops), **common)
    # entropy 0 is a legitimate seed too (depth-1 histories on every configuration)
    for cfg, dyadic in configs(tier):
        grid = bmm.shift_grid(bmm.G5 if cfg['tol'] else bmm.G4, cfg['t0'], cfg['t1'])
        ops = bmm.grid_ops(grid, zero=False)
        units += ex.bfs_units(cfg, 0, ops, 1, opts=dict(dyadic=dyadic, final=ops[:6]), **common)
    # two long sequential sweeps in different halves of the interval: trees deeper than 32 and 64 levels
    deep_hist = [['q', 0.5, 1.0], ['sweepF', 0.0, 70, 0.005], ['sweepF', 0.5, 70, 0.005]]
    for cfg in [bmm.cfg_make(size=(2,), levy='space-time', cache_size=45),
                bmm.cfg_make(size=(2,), levy='none', cache_size=None)]:
        units.append(dict(kind='bfs', cfg=cfg, entropy=entropy, alphabet=[], prefix=deep_hist, depth=3,
                          opts=dict(dyadic=False, final=[], entropy_check=False), **common))
    # deep dyadic products
    deep = [(bmm.cfg_make(size=(2, 2), levy='space-time', tol=0.1, halfway=True, cache_size=2), bmm.G10),
            (bmm.cfg_make(size=(2, 2), levy='foster', tol=0.1, halfway=True, cache_size=45), bmm.G10),
            (bmm.cfg_make(wrapper='tree', size=(2,), tol=0.1), bmm.G10),
            (bmm.cfg_make(wrapper='tree', size=(2,), tol=0.), bmm.G4)]
    for cfg, grid in deep:
        ops = bmm.grid_ops(grid, zero=False)
        if tier == 'quick':
            g2 = grid[::2] if len(grid) > 6 else grid
            ops = bmm.grid_ops(g2, zero=False)
        units += ex.bfs_units(cfg, entropy, ops, 3, split=True, opts=dict(dyadic=True, final=ops), **common)
    # solver-shaped
    for cfg, dyadic in [(bmm.cfg_make(size=(2, 2), levy='space-time', cache_size=45), False),
                        (bmm.cfg_make(size=(2, 2), levy='foster', cache_size=2), False),
                        (bmm.cfg_make(wrapper='tree', size=(2, 2), tol=1e-3), True),
                        (bmm.cfg_make(size=(2, 2), levy='space-time', tol=1e-3, halfway=True), True)]:
        for N in ([8, 130] if tier == 'quick' else [8, 130, 400]):
            D = 2 if N == 8 else 1
            if tier == 'quick' and N > 8 and dyadic:
                D = 0
            units += ex.dev_units(cfg, entropy, N, D, nchunks=8 if D else 1,
                                  opts=dict(dyadic=dyadic, final=bmm.grid_ops([0., 0.125, 0.5, 1.0], zero=False),
                                            entropy_check=False), **common)
    ex.selfcheck_determinism(entropy)
    chk.count('determinism_selfcheck_passed')
    chk.count('work_units', len(units))
    units.sort(key=lambda u: -(u.get('N', 0) * len(u.get('devsets', []))))
    for part in pmap(ex.run_unit, units):
        chk.merge(part)
    chk.expect('executions', len(units))
    chk.assumptions = ["entropies compared: VERIF_SEED-derived e and e+1", "bitwise comparison in one process"]
    return chk


if __name__ == '__main__':
    main(run)
