"""C03 - a Brownian object is one path: increments and areas obey Chen's relation.

Engine A, invariant chen_visitor: in every explored state all grid triples s<u<t are queried and the identities
checked; in labelled mode (coefficient rows) this is the identity for all noise values at once.
"""
import itertools

import torch

from .. import bm_machine as bmm
from .. import explore as ex
from ..core import Check, pmap, main

KINDS = ()  # transition problems (exceptions etc.) belong to C07; C03 only reports its own invariant
K = 128


def configs(tier):
    out = []
    caches = [0, 1, 2, 45, None]
    dts = [None, 0.25, 1 / 16]
    # labelled: exact for all noise values (W, U linear in the noise)
    for levy, cache, dt, given in itertools.product(['none', 'space-time'], caches, dts, ['none', 'W', 'WH']):
        if given == 'WH' and levy == 'none':
            continue
        out.append(('labelled', bmm.cfg_make(size=(K,), levy=levy, cache_size=cache, dt=dt, given=given)))
    for levy in ['davie', 'foster']:
        out.append(('labelled', bmm.cfg_make(size=(K,), levy=levy, cache_size=2)))
    # real noise incl. Levy area A and all shapes
    for size, levy, cache, dt in itertools.product([(), (3,), (2, 3)], ['none', 'space-time', 'davie', 'foster'],
                                                   [1, 2, None], [None, 0.25]):
        out.append(('real', bmm.cfg_make(size=size, levy=levy, cache_size=cache, dt=dt)))
    # through ReverseBrownian
    for levy in ['none', 'space-time', 'davie', 'foster']:
        out.append(('real', bmm.cfg_make(size=(2, 3), levy=levy, cache_size=2, via='r')))
    out.append(('labelled', bmm.cfg_make(size=(K,), levy='space-time', cache_size=2, via='r')))
    # tolerance > 0, dyadic tree, derived classes
    for levy in ['none', 'space-time', 'foster']:
        for hw in (False, True):
            out.append(('real', bmm.cfg_make(size=(2, 3), levy=levy, tol=0.1, halfway=hw, cache_size=2)))
            if levy != 'foster':
                out.append(('labelled', bmm.cfg_make(size=(K,), levy=levy, tol=0.1, halfway=hw, cache_size=2)))
    out.append(('real', bmm.cfg_make(wrapper='path', size=(2, 3), cache_size=None)))
    out.append(('real', bmm.cfg_make(wrapper='tree', size=(2, 3), tol=0.01)))
    out.append(('labelled', bmm.cfg_make(wrapper='tree', size=(K,), tol=0.01)))
    out.append(('labelled', bmm.cfg_make(wrapper='tree', size=(K,), tol=0.01, given='W')))
    # intervals that do not start at 0 (t0 < 0 < t1)
    for levy, cache in itertools.product(['space-time', 'foster'], [1, None]):
        out.append(('real', bmm.cfg_make(size=(2, 3), levy=levy, cache_size=cache, t0=-1., t1=1.)))
    out.append(('labelled', bmm.cfg_make(size=(K,), levy='space-time', cache_size=2, t0=-1., t1=1.)))
    out.append(('real', bmm.cfg_make(size=(2, 3), levy='davie', cache_size=2, dt=0.5, t0=1., t1=3.)))
    out.append(('real', bmm.cfg_make(wrapper='tree', size=(2, 3), tol=0.01, t0=-1., t1=1.)))
    for levy in ['space-time', 'foster']:
        out.append(('real', bmm.cfg_make(size=(2, 3), levy=levy, cache_size=2, dtype='float32')))
    return out


def core_configs():
    out = []
    for levy, cache in itertools.product(['space-time', 'foster'], [1, 2, None]):
        out.append(('real', bmm.cfg_make(size=(2, 3), levy=levy, cache_size=cache)))
    out.append(('labelled', bmm.cfg_make(size=(K,), levy='space-time', cache_size=2)))
    out.append(('real', bmm.cfg_make(size=(2, 3), levy='foster', tol=0.1, cache_size=2)))
    return out


def given_tensors(cfg):
    if cfg['given'] == 'none':
        return None
    n = cfg['size'][0]
    T = cfg['t1'] - cfg['t0']
    W = torch.zeros(cfg['size'], dtype=torch.float64)
    W[n - 1] = T ** 0.5
    H = torch.zeros(cfg['size'], dtype=torch.float64)
    H[n - 2] = (T / 12) ** 0.5
    return (W if cfg['given'] in ('W', 'WH') else None, H if cfg['given'] == 'WH' else None)


def run(tier, seed):
    chk = Check('C03', tier, seed, 'model_checking',
                rule="state = canonical (tree, cache, cursor, counters) of a live Brownian object reached through "
                     "public queries; in every distinct state all grid pairs are queried and Chen's relation is "
                     "checked on all triples, multi-piece answers are recombined from the stored pieces found by "
                     "root descent; labelled-noise states decide the identities for all noise values")
    entropy = 2000 + seed
    units = []
    vis = dict(visitor='mc.bm_invariants.chen_visitor', kinds=KINDS)
    for mode, cfg in configs(tier):
        grid = bmm.G4 if cfg['tol'] == 0 else bmm.G5
        if cfg['tol'] == 0.01:
            grid = [0., 0.13, 0.25, 0.5, 0.77, 1.0]
        grid = bmm.shift_grid(grid, cfg['t0'], cfg['t1'])
        pe = mode == 'real' and cfg['via'] == 'd' and (cfg['wrapper'] != 'interval' or cfg['cache_size'] == 2
                                                      or cfg['t0'] != 0.)
        units += ex.bfs_units(cfg, entropy, bmm.grid_ops(grid, point_eval=pe), 2, mode=mode, K=K,
                              given=given_tensors(cfg),
                              opts=dict(grid=grid, points=(mode == 'real'),
                                        rtol=1e-12 if cfg['dtype'] == 'float64' else 2e-5), **vis)
    cores = core_configs()
    if tier == 'thorough':
        # depth 3 over the 55-letter G8 alphabet costs ~45 CPU-minutes per configuration: four of them (the full
        # eight took 2.7 h on 6 workers)
        cores = cores[:1]  # one configuration (two still exceeded 30 min together with the rest of the tier)
    for mode, cfg in cores:
        if tier == 'quick':
            grid = bmm.G4 if cfg['tol'] == 0 else bmm.G5
            ops = bmm.grid_ops(grid, zero=False)
        else:
            grid = bmm.G8 if cfg['tol'] == 0 else bmm.G10
            ops = bmm.grid_ops(grid)
        pg = bmm.G4 if cfg['tol'] == 0 else bmm.G5
        units += ex.bfs_units(cfg, entropy, ops, 3, split=True, mode=mode, K=K,
                              opts=dict(grid=pg if tier == 'quick' else grid), **vis)
    # solver-shaped histories
    dev_cfgs = [('real', bmm.cfg_make(size=(2, 3), levy=levy, cache_size=cache, dt=dt))
                for levy, cache, dt in [('space-time', 45, None), ('foster', 45, None), ('davie', 2, None),
                                        ('space-time', 45, 1 / 130)]]
    dev_cfgs.append(('labelled', bmm.cfg_make(size=(512,), levy='space-time', cache_size=45)))
    dev_cfgs.append(('real', bmm.cfg_make(wrapper='tree', size=(2, 3), tol=1e-4)))
    Ns = [8, 130] if tier == 'quick' else [8, 130, 400]
    pg = [0., 1 / 8, 1 / 3, 0.5, 100 / 130, 1.0]
    for mode, cfg in dev_cfgs:
        for N in Ns:
            if mode == 'labelled' and N > 130:
                continue
            D = 2 if ((tier == 'thorough' and N <= 130) or N == 8) else 1
            units += ex.dev_units(cfg, entropy, N, D, nchunks=16 if D == 2 else 4, mode=mode, K=512,
                                  opts=dict(grid=pg), **vis)
    ex.selfcheck_determinism(entropy)
    chk.count('determinism_selfcheck_passed')
    chk.count('work_units', len(units))
    for part in pmap(ex.run_unit, units):
        chk.merge(part)
    chk.expect('executions', len(units))
    chk.assumptions = ["times on the stated grids; for tol>0 only resolved (grid-aligned) times",
                       "real-noise identities to 1e-12 relative, labelled identities to 1e-12 on coefficient rows"]
    return chk


if __name__ == '__main__':
    main(run)
