"""C19 - unsupported combinations and malformed inputs are rejected up-front (engine C, full finite product)."""
import itertools
import warnings

import torch
from torch import nn

import torchsde

from .. import matrix
from .. import zoo
from ..core import Check, pmap, main
from ..explore import Out


class Bare:
    """Not an nn.Module; attributes added per case."""


def malformed_unit(unit):
    out = Out()
    cases = []

    def base(nt='diagonal', st='ito'):
        prog, y0, ch = matrix.problem(st, nt)
        # a Brownian motion every default solver accepts (srk needs space-time Levy area), so that the only thing wrong
        # with each case below is the malformation itself; the well-formed control call is checked to run
        bm = torchsde.BrownianInterval(t0=0., t1=1., size=(y0.shape[0], ch), dtype=torch.float64, entropy=3,
                                       levy_area_approximation='space-time')
        return prog, y0, matrix.SpyBM(bm)

    controls = []

    def add(name, fn, where='sdeint'):
        cases.append((name, fn, where))

    for fname, api in (('sdeint', torchsde.sdeint), ('sdeint_adjoint', torchsde.sdeint_adjoint)):
        def mk(api=api):
            def call(prog, y0, ts, bm, **kw):
                kw.setdefault('dt', 0.25)
                return api(prog, y0, ts, bm=bm, **kw)
            return call
        call = mk()
        T = lambda *v: torch.tensor(v, dtype=torch.float64)
        for nt_ in zoo.NOISE_TYPES:
            controls.append((f'{fname}:{nt_}:control', lambda c=call, nt_=nt_: (lambda p, y, b: c(p, y, T(0., 0.5), b))(*base(nt_))))
        add(f'{fname}:ts_decreasing', lambda c=call: (lambda p, y, b: c(p, y, T(0., 0.5, 0.25), b))(*base()))
        add(f'{fname}:ts_repeated', lambda c=call: (lambda p, y, b: c(p, y, T(0., 0.5, 0.5), b))(*base()))
        add(f'{fname}:ts_list_decreasing', lambda c=call: (lambda p, y, b: c(p, y, [0., 0.5, 0.25], b))(*base()))
        add(f'{fname}:ts_wrong_type', lambda c=call: (lambda p, y, b: c(p, y, {0.: 1}, b))(*base()))
        add(f'{fname}:ts_list_of_str', lambda c=call: (lambda p, y, b: c(p, y, ['0', '1'], b))(*base()))
        add(f'{fname}:y0_1d', lambda c=call: (lambda p, y, b: c(p, y[0], T(0., 0.5), b))(*base()))
        add(f'{fname}:y0_3d', lambda c=call: (lambda p, y, b: c(p, y.unsqueeze(0), T(0., 0.5), b))(*base()))
        add(f'{fname}:y0_list', lambda c=call: (lambda p, y, b: c(p, y.tolist(), T(0., 0.5), b))(*base()))
        add(f'{fname}:ts_requires_grad',
            lambda c=call: (lambda p, y, b: c(p, y, T(0., 0.5).requires_grad_(True), b))(*base()))
        add(f'{fname}:dt_requires_grad',
            lambda c=call: (lambda p, y, b: c(p, y, T(0., 0.5), b, dt=torch.tensor(0.25, requires_grad=True)))(*base()))
        for argname in ('rtol', 'atol', 'dt_min') + (('adjoint_rtol', 'adjoint_atol') if fname == 'sdeint_adjoint' else ()):
            add(f'{fname}:{argname}_requires_grad',
                lambda c=call, a=argname: (lambda p, y, b: c(p, y, T(0., 0.5), b,
                                                             **{a: torch.tensor(0.25, requires_grad=True)}))(*base()))
        add(f'{fname}:unknown_method', lambda c=call: (lambda p, y, b: c(p, y, T(0., 0.5), b, method='rk45'))(*base()))

        for nt in zoo.NOISE_TYPES:
            def bm_batch(c=call, nt=nt):
                p, y, _ = base(nt)
                ch = p.d if nt == 'diagonal' else p.m
                b = matrix.SpyBM(torchsde.BrownianInterval(0., 1., size=(y.shape[0] + 1, ch), dtype=torch.float64, levy_area_approximation='space-time'))
                return c(p, y, T(0., 0.5), b), b
            add(f'{fname}:{nt}:bm_batch_mismatch', bm_batch)

            def bm_noise(c=call, nt=nt):
                p, y, _ = base(nt)
                ch = p.d if nt == 'diagonal' else p.m
                b = matrix.SpyBM(torchsde.BrownianInterval(0., 1., size=(y.shape[0], ch + 1), dtype=torch.float64, levy_area_approximation='space-time'))
                return c(p, y, T(0., 0.5), b), b
            add(f'{fname}:{nt}:bm_noise_mismatch', bm_noise)

            def bm_1d(c=call, nt=nt):
                p, y, _ = base(nt)
                b = matrix.SpyBM(torchsde.BrownianInterval(0., 1., size=(y.shape[0],), dtype=torch.float64, levy_area_approximation='space-time'))
                return c(p, y, T(0., 0.5), b), b
            add(f'{fname}:{nt}:bm_not_2d', bm_1d)

            def f_state(c=call, nt=nt):
                p, y, b = base(nt)
                of = p.f
                p.f = lambda t, yy: of(t, yy)[:, :1]
                return c(p, y, T(0., 0.5), b), b
            add(f'{fname}:{nt}:drift_state_mismatch', f_state)

            def f_batch(c=call, nt=nt):
                p, y, b = base(nt)
                of = p.f
                p.f = lambda t, yy: of(t, yy)[:1]
                return c(p, y, T(0., 0.5), b), b
            add(f'{fname}:{nt}:drift_batch_mismatch', f_batch)

            def g_dim(c=call, nt=nt):
                p, y, b = base(nt)
                og = p.g
                p.g = (lambda t, yy: og(t, yy).unsqueeze(-1)) if nt == 'diagonal' else (lambda t, yy: og(t, yy)[..., 0])
                return c(p, y, T(0., 0.5), b), b
            add(f'{fname}:{nt}:diffusion_wrong_ndim', g_dim)

            def g_state(c=call, nt=nt):
                p, y, b = base(nt)
                og = p.g
                p.g = lambda t, yy: og(t, yy)[:, :1]
                return c(p, y, T(0., 0.5), b), b
            add(f'{fname}:{nt}:diffusion_state_mismatch', g_state)

        def scalar_multi(c=call):
            p, y, _ = base('general')
            p.noise_type = 'scalar'
            b = matrix.SpyBM(torchsde.BrownianInterval(0., 1., size=(y.shape[0], p.m), dtype=torch.float64, levy_area_approximation='space-time'))
            return c(p, y, T(0., 0.5), b), b
        add(f'{fname}:scalar_noise_with_2_channels', scalar_multi)

        def no_drift(c=call, fname=fname):
            p, y, b = base()
            q = nn.Module()
            q.noise_type, q.sde_type = 'diagonal', 'ito'
            q.g = p.g
            return c(q, y, T(0., 0.5), b, **({'adjoint_params': ()} if fname == 'sdeint_adjoint' else {})), b
        add(f'{fname}:missing_drift', no_drift)

        def no_diff(c=call, fname=fname):
            p, y, b = base()
            q = nn.Module()
            q.noise_type, q.sde_type = 'diagonal', 'ito'
            q.f = p.f
            return c(q, y, T(0., 0.5), b, **({'adjoint_params': ()} if fname == 'sdeint_adjoint' else {})), b
        add(f'{fname}:missing_diffusion', no_diff)

        def bad_nt(c=call):
            p, y, b = base()
            p.noise_type = 'colored'
            return c(p, y, T(0., 0.5), b), b
        add(f'{fname}:unknown_noise_type', bad_nt)

        def bad_st(c=call):
            p, y, b = base()
            p.sde_type = 'backward_ito'
            return c(p, y, T(0., 0.5), b), b
        add(f'{fname}:unknown_sde_type', bad_st)

        def no_nt(c=call):
            p, y, b = base()
            q = nn.Module()
            q.sde_type = 'ito'
            q.f, q.g = p.f, p.g
            return c(q, y, T(0., 0.5), b), b
        add(f'{fname}:no_noise_type_attribute', no_nt)

    for name, fn in controls:
        out.count('executions')
        try:
            with warnings.catch_warnings():
                warnings.simplefilter('ignore')
                fn()
            out.keys.add(('control', name))
        except Exception as e:  # noqa
            from ..core import HarnessError
            raise HarnessError(f"malformed-input harness: the well-formed control call {name} failed: "
                               f"{type(e).__name__}: {e}")
    for name, fn, where in cases:
        out.count('executions')
        with warnings.catch_warnings():
            warnings.simplefilter('ignore')
            try:
                r = fn()
                outcome = 'ran'
                nq = len(r[1].log) if isinstance(r, tuple) and hasattr(r[1], 'log') else None
            except ValueError:
                outcome = 'ValueError'
            except Exception as e:  # noqa
                outcome = type(e).__name__ + ': ' + str(e)[:100]
        if outcome != 'ValueError':
            out.violation(dict(kind='malformed', case=name, got=outcome.split(':')[0]),
                          f"malformed input '{name}': expected ValueError, got {outcome}",
                          dict(engine='C-malformed', case=name))
        else:
            out.keys.add(('malformed', name))
    out.sample(dict(malformed_cases=[c[0] for c in cases][:8], total=len(cases)), limit=1)
    return out.pack()


def defaults_unit(unit):
    """method=None: the solver constructed (class that queries the proxy) is the documented default."""
    out = Out()
    for st, nt in itertools.product(zoo.SDE_TYPES, zoo.NOISE_TYPES):
        prog, y0, ch = matrix.problem(st, nt)
        want = zoo.DOC_DEFAULT[(st, nt)]
        bm = matrix.SpyBM(torchsde.BrownianInterval(0., 1., size=(y0.shape[0], ch), dtype=torch.float64, entropy=1,
                                                    levy_area_approximation=zoo.levy_for(want)))
        with warnings.catch_warnings():
            warnings.simplefilter('ignore')
            torchsde.sdeint(prog, y0, [0., 0.5], bm=bm, dt=0.25)
        used = sorted(matrix.CLASS_TO_METHOD[c] for c in bm.callers)
        out.count('executions')
        if used != [want]:
            out.violation(dict(kind='default_method', sde_type=st, noise_type=nt, got=str(used)),
                          f"method=None for ({st},{nt}): solver used {used}, documented default {want}",
                          dict(engine='C-defaults', sde_type=st, noise_type=nt))
        else:
            out.keys.add(('default', st, nt, want))
        # bm=None too: must run (the library picks the Levy area its default solver needs)
        out.count('executions')
        try:
            with warnings.catch_warnings():
                warnings.simplefilter('ignore')
                ys = torchsde.sdeint(prog, y0, [0., 0.5], dt=0.25)
            assert ys.shape[0] == 2
            out.keys.add(('default-bm-none', st, nt))
        except Exception as e:  # noqa
            out.violation(dict(kind='default_method', sde_type=st, noise_type=nt, got=type(e).__name__),
                          f"sdeint with method=None, bm=None for ({st},{nt}) raised {type(e).__name__}: {e}",
                          dict(engine='C-defaults', sde_type=st, noise_type=nt))
    return out.pack()


def dispatch(unit):
    return {'forward': matrix.forward_unit, 'adjoint': matrix.adjoint_unit, 'malformed': malformed_unit,
            'defaults': defaults_unit}[unit['what']](unit)


def run(tier, seed):
    chk = Check('C19', tier, seed, 'exploration',
                rule="full product sde_type x noise_type x method(8 + adjoint_reversible_heun + unknown) x "
                     "levy_area_approximation x {bm given, None} x adaptive x logqp (x grad_free for Milstein), and "
                     "for supported forward cells x adjoint_method(10 + None) (x adjoint grad_free); oracle = the "
                     "documentation table in mc/zoo.py; each class of malformed argument in every position; "
                     "non-trivial = cells whose expected outcome was observed (ran through the spying proxy / "
                     "ValueError with zero Brownian queries / refused in backward with no gradient)")
    units = []
    for st, nt in itertools.product(zoo.SDE_TYPES, zoo.NOISE_TYPES):
        units.append(dict(what='forward', st=st, nt=nt))
        units.append(dict(what='adjoint', st=st, nt=nt))
    units.append(dict(what='malformed'))
    units.append(dict(what='defaults'))
    for part in pmap(dispatch, units):
        chk.merge(part)
    chk.expect('executions', 2000)
    chk.assumptions = ["log_ode is taken as documented by its module docstring/class attributes (DOCUMENTATION.md does "
                       "not list it)", "one fixed tiny problem per (sde_type, noise_type)"]
    return chk


if __name__ == '__main__':
    main(run)
