"""C14 - adaptive stepping terminates, tiles the interval and honours tolerances (engine B).

The environment answer at every trial is the error estimate.  Part 1 scripts it (all sequences of a bounded length
over a 6-letter alphabet; every placement of <=2 deviations from the default answer anywhere in the run) and checks
the controller's invariants on the trial log seen by a recording Brownian proxy.  Part 2 uses the real error
estimate: the norm itself against an independent implementation on an exhaustive grid, and deterministic SDE
families along a tolerance ladder.
"""
import itertools
import math

import torch

import torchsde

from .. import loop_machine as lm
from .. import zoo
from ..core import Check, pmap, main, HarnessError
from ..explore import Out

CELLS = [('ito', 'diagonal', 'euler', {}), ('ito', 'scalar', 'srk', {}),
         ('stratonovich', 'general', 'reversible_heun', {}), ('stratonovich', 'diagonal', 'milstein', {})]


def norm_unit(unit):
    """compute_error vs the independent norm on an exhaustive small grid incl. zeros, sign flips, eps clamp."""
    from torchsde._core import adaptive_stepping
    out = Out()
    vals = [0.0, 1e-9, -1e-9, 1e-3, -1e-3, 1.0, -1.0, 37.5]
    tols = [(1e-2, 1e-2), (0.0, 1e-3), (1e-3, 0.0), (1e-5, 1e-4), (0.0, 0.0)]
    for n in (1, 2):
        for a in itertools.product(vals, repeat=n):
            for b in itertools.product(vals, repeat=n):
                for rtol, atol in tols:
                    y1 = torch.tensor([list(a)], dtype=torch.float64)
                    y2 = torch.tensor([list(b)], dtype=torch.float64)
                    e = adaptive_stepping.compute_error(y1, y2, rtol, atol)
                    r = lm.ref_error(y1, y2, rtol, atol)
                    out.count('executions')
                    if abs(e - r) > 1e-9 * max(1.0, abs(r)):
                        out.violation(dict(kind='error_norm'), f"compute_error({a},{b},rtol={rtol},atol={atol}) = {e}, "
                                      f"mixed rtol/atol RMS norm = {r}",
                                      dict(engine='B-c14-norm', y_full=a, y_half=b, rtol=rtol, atol=atol))
                        return out.pack()
                    if a != b:
                        out.keys.add(('norm', a, b, rtol, atol))
    return out.pack()


class GBM(torch.nn.Module):
    def __init__(self, sde_type, lam, sigma, noise_type='diagonal'):
        super().__init__()
        self.sde_type, self.noise_type, self.lam, self.sigma = sde_type, noise_type, lam, sigma
        self.d = self.m = 1

    def f(self, t, y):
        return -self.lam * y

    def g(self, t, y):
        g = self.sigma * y
        return g if self.noise_type == 'diagonal' else g.unsqueeze(-1)

    def exact(self, y0, t, W):
        drift = -self.lam - (0.5 * self.sigma ** 2 if self.sde_type == 'ito' else 0.0)
        return y0 * torch.exp(drift * t + self.sigma * W)


def ladder_unit(unit):
    """Real error estimate: invariants with the error recomputed by the reference norm; true error along the ladder."""
    out = Out()
    st, method, lam, sigma = unit['sde_type'], unit['method'], unit['lam'], unit['sigma']
    nt = 'diagonal'
    cell = (st, nt, method, {})
    prog = GBM(st, lam, sigma)
    B = 64
    y0 = torch.ones(B, 1, dtype=torch.float64)
    ts = [0.0, 0.5, 1.0]
    errors = []
    for k in unit['ladder']:
        tol = 10.0 ** (-k)
        run = lm.adaptive_run(cell, ts, 0.1, 1e-6, [], entropy=unit['entropy'], real_error=True, rtol=tol, atol=tol,
                              prog=prog, y0=y0)
        out.count('executions')
        out.count('transitions', len(run['errs']))
        label = dict(problem='GBM', sde_type=st, method=method, lam=lam, sigma=sigma, rtol=tol, atol=tol, ts=ts)
        bad = lm.check_adaptive_run(cell, ts, 0.1, 1e-6, run, out, label, real_error=True)
        for kind, detail in bad:
            if kind == 'harness_parse':
                raise HarnessError(detail)
            out.violation(dict(kind=kind, cell=zoo.cell_name(cell), real_error=True), detail,
                          dict(engine='B-c14-ladder', entropy=unit['entropy'], **label))
        if run['capped'] or bad:
            return out.pack()
        W = run['bm'](0.0, 1.0)
        exact = prog.exact(y0, 1.0, W)
        err = float(((run['ys'][-1] - exact) ** 2).mean().sqrt())
        errors.append((tol, err, len(run['errs'])))
        out.keys.add(('ladder', st, method, lam, sigma, k))
    for (t1, e1, n1), (t2, e2, n2) in zip(errors[:-1], errors[1:]):
        if e2 > 2.0 * e1 + 1e-12:
            out.violation(dict(kind='tolerance_ladder', cell=zoo.cell_name(cell)),
                          f"true RMS error grows from {e1:.3e} (tol {t1}) to {e2:.3e} (tol {t2}) for GBM lam={lam}",
                          dict(engine='B-c14-ladder', errors=errors, sde_type=st, method=method, lam=lam, sigma=sigma,
                               entropy=unit['entropy']))
    if errors and not errors[-1][1] < errors[0][1]:
        out.violation(dict(kind='tolerance_ladder', cell=zoo.cell_name(cell)),
                      f"tightening tolerances from {errors[0][0]} to {errors[-1][0]} does not reduce the true error: "
                      f"{errors}", dict(engine='B-c14-ladder', errors=errors, sde_type=st, method=method, lam=lam,
                                        sigma=sigma, entropy=unit['entropy']))
    out.sample(dict(problem='GBM', sde_type=st, method=method, lam=lam, ladder=errors), limit=1)
    return out.pack()


def dispatch(unit):
    if unit['what'] == 'norm':
        return norm_unit(unit)
    if unit['what'] == 'ladder':
        return ladder_unit(unit)
    return lm.c14_explore_unit(unit)


def run(tier, seed):
    chk = Check('C14', tier, seed, 'model_checking',
                rule="the adaptive controller is run to completion under every scripted error-answer sequence within "
                     "the bounds (all sequences of length L over {0.5,1e-6,1,1+1e-9,3,1e6}, then default 0.5; every "
                     "placement of <=2 deviations from the default at any trial of the run); states = distinct trial "
                     "intervals and distinct complete trial traces, transitions = trials executed")
    L = 4 if tier == 'quick' else 5
    units = []
    setups = list(itertools.product([[0., 1.], [0., 0.37, 1.]], [0.25, 0.4], [0.05, 0.1]))
    cells = CELLS[:2] if tier == 'quick' else CELLS
    prefixes = list(itertools.product(lm.E_ALPHABET, repeat=L))
    for cell in cells:
        for ts, dt, dt_min in setups:
            for chunk in [prefixes[i::8] for i in range(8)]:
                units.append(dict(what='explore', cell=list(cell), ts=ts, dt=dt, dt_min=dt_min, mode='prefix',
                                  prefixes=chunk, entropy=140 + seed))
    # recorded histories that must be re-examined on every change (simplest known counter-examples):
    # steps of dt_min accumulate to 1 - 1ulp, the clipped last trial cannot be bisected (known finding D16)
    for cell in CELLS:
        units.append(dict(what='explore', cell=list(cell), ts=[0., 1.], dt=0.25, dt_min=0.1, mode='prefix',
                          prefixes=[(1e-06, 1000000.0, 1.0, 1.0, 3.0)], entropy=140 + seed))
    alts = [e for e in lm.E_ALPHABET if e != 0.5]
    for cell in CELLS:
        for ts, dt, dt_min in setups + [([0., 0.8], 0.3, 1e-3), ([0., 1.], 0.05, 0.01)]:
            firsts = [None] + [(i, a) for i in range(40) for a in alts]
            for chunk in [firsts[i::6] for i in range(6)]:
                units.append(dict(what='explore', cell=list(cell), ts=ts, dt=dt, dt_min=dt_min, mode='deviation',
                                  bound=2, first=chunk, horizon=40 if tier == 'quick' else 80,
                                  entropy=140 + seed))
    units.append(dict(what='norm'))
    for st, method in [('ito', 'milstein'), ('ito', 'srk'), ('stratonovich', 'midpoint'), ('stratonovich', 'heun')]:
        for lam, sigma in [(1.0, 0.5), (40.0, 0.5), (0.0, 1.0)]:
            units.append(dict(what='ladder', sde_type=st, method=method, lam=lam, sigma=sigma,
                              ladder=[2, 3, 4] if tier == 'quick' else [2, 3, 4, 5], entropy=140 + seed))
    chk.count('work_units', len(units))
    for part in pmap(dispatch, units):
        chk.merge(part)
    chk.expect('executions', len(prefixes) * len(setups) * len(cells))
    chk.assumptions = ["error answers restricted to the 6-letter alphabet / <=2 deviations (over-approximates what any "
                       "SDE can produce within that bound)", "each trial makes exactly 3 Brownian queries (asserted)"]
    return chk


if __name__ == '__main__':
    main(run)
