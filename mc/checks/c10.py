"""C10 - reversible Heun adjoint reproduces backprop gradients to rounding error (engine D)."""
import itertools
import warnings

import torch

import torchsde

from .. import zoo
from ..core import Check, pmap, main
from ..explore import Out


def grads_of(prog, y0, loss):
    ps = [p for p in prog.parameters() if p.requires_grad]
    gs = torch.autograd.grad(loss, [y0] + ps, allow_unused=True, retain_graph=True)
    return [torch.zeros_like(x) if g is None else g for g, x in zip(gs, [y0] + ps)]


def unit_fn(unit):
    out = Out()
    nt, dt = unit['nt'], unit['dt']
    st = 'stratonovich'
    n = int(round(1.0 / dt))
    lattice = [k * dt for k in range(n + 1)]
    interior = lattice[1:-1]
    with warnings.catch_warnings():
        warnings.simplefilter('error')  # the library warns when ts is not aligned with dt: must not happen here
        warnings.filterwarnings('ignore', category=DeprecationWarning)
        for (pname, prog), B in itertools.product(zoo.programs(nt, st, unit['tier']), unit['batches']):
            y0 = zoo.y0_for(prog, B).requires_grad_(True)
            subsets = [m for r in range(len(interior) + 1) for m in itertools.combinations(interior, r)]
            if len(subsets) > unit['max_subsets']:
                subsets = subsets[::max(1, len(subsets) // unit['max_subsets'])]
            for mid in subsets:
                tsl = [0.] + list(mid) + [1.0]
                ts = torch.tensor(tsl, dtype=torch.float64)
                bm = zoo.make_bm(prog, B, 'none', unit['entropy'])
                ys_bp = torchsde.sdeint(prog, y0, ts, bm=bm, method='reversible_heun', dt=dt)
                ys_ad = torchsde.sdeint_adjoint(prog, y0, ts, bm=bm, method='reversible_heun',
                                                adjoint_method='adjoint_reversible_heun', dt=dt)
                label = dict(noise_type=nt, program=pname, batch=B, dt=dt, ts=tsl)
                if not torch.equal(ys_bp.detach(), ys_ad.detach()):
                    out.violation(dict(kind='forward', noise_type=nt), f"{label}: forward values differ",
                                  dict(engine='D-c10', entropy=unit['entropy'], **label))
                    continue
                # Jacobian basis of loss weights: one-hot on (time index >= 1, row, component)
                idxs = list(itertools.product(range(1, len(tsl)), range(B), range(prog.d)))
                if not unit['full_basis']:
                    idxs = idxs[::max(1, len(idxs) // 4)]
                worst = 0.0
                for (k, b, i) in idxs:
                    g1 = grads_of(prog, y0, ys_bp[k, b, i])
                    # backprop graph is reused -> retain
                    g2 = grads_of(prog, y0, ys_ad[k, b, i])
                    out.count('executions')
                    num = max(float((a - c).abs().max()) for a, c in zip(g1, g2))
                    den = max(max(float(a.abs().max()) for a in g1), 1e-12)
                    worst = max(worst, num / den)
                    if num > 1e-9 * max(den, 1.0):
                        out.violation(dict(kind='gradient', noise_type=nt),
                                      f"{label}: d ys[{k},{b},{i}]/d(y0,theta): adjoint differs from backprop by "
                                      f"{num} (scale {den})", dict(engine='D-c10', entropy=unit['entropy'],
                                                                   output=[k, b, i], **label))
                        break
                # a dense random weighting as well
                gen = torch.Generator().manual_seed(3)
                Wt = torch.randn(ys_bp.shape, dtype=torch.float64, generator=gen)
                g1 = grads_of(prog, y0, (ys_bp * Wt).sum())
                g2 = grads_of(prog, y0, (ys_ad * Wt).sum())
                num = max(float((a - c).abs().max()) for a, c in zip(g1, g2))
                den = max(max(float(a.abs().max()) for a in g1), 1.0)
                if num > 1e-9 * den:
                    out.violation(dict(kind='gradient', noise_type=nt),
                                  f"{label}: dense loss: adjoint differs from backprop by {num}",
                                  dict(engine='D-c10', entropy=unit['entropy'], **label))
                out.mx('max_relative_gradient_error', max(worst, num / den))
                out.keys.add((nt, pname, B, dt, tuple(tsl)))
                out.sample(label, limit=1)
    return out.pack()


def run(tier, seed):
    chk = Check('C10', tier, seed, 'exploration',
                rule="4 noise types x programs x batch sizes x dt in {1/8,1/4,1/2} x subsets of the dt-lattice as ts "
                     "(aligned by construction; the library's misalignment warning is turned into an error) x the "
                     "one-hot basis of loss weights over (output time, row, component) + one dense weighting; "
                     "adjoint gradients vs backprop through sdeint(reversible_heun), relative 1e-9")
    units = []
    for nt, dt in itertools.product(zoo.NOISE_TYPES, (0.5, 0.25, 0.125)):
        units.append(dict(nt=nt, dt=dt, tier=tier, entropy=100 + seed, batches=(1, 3) if tier != 'quick' else (2,),
                          max_subsets=8 if tier == 'quick' else 128, full_basis=(tier != 'quick' or dt >= 0.25)))
    for part in pmap(unit_fn, units):
        chk.merge(part)
    return chk


if __name__ == '__main__':
    main(run)
