"""C15 - reversible Heun is algebraically reversible (engine D)."""
import itertools
import math
import warnings

import numpy as np
import torch
from torch import nn

import torchsde

from .. import seams
from .. import zoo
from ..core import Check, pmap, main
from ..explore import Out


class NegRev(nn.Module):
    """The time-reversed, negated SDE."""

    def __init__(self, prog):
        super().__init__()
        self.prog = prog
        self.noise_type, self.sde_type = prog.noise_type, prog.sde_type

    def f(self, t, y):
        return -self.prog.f(-t, y)

    def g(self, t, y):
        return -self.prog.g(-t, y)


def gh_nodes(n):
    x, w = np.polynomial.hermite_e.hermegauss(n)
    return x.tolist()


def unit_fn(unit):
    out = Out()
    nt = unit['nt']
    st = 'stratonovich'
    with torch.no_grad(), warnings.catch_warnings():
        warnings.simplefilter('ignore')
        for pname, prog in zoo.programs(nt, st, unit['tier']):
            B = 2
            mm = prog.d if nt == 'diagonal' else prog.m
            rprog = NegRev(prog)
            nodes = gh_nodes(5)
            # ---- (i) single step: the reverse step is the exact inverse, for every grid increment
            for h, t0, nominal in itertools.product([2.0 ** -k for k in range(2, 7)], (0.0, 0.4), (1.0, 2.5)):
                for incs in itertools.product(nodes, repeat=min(mm, 2)):
                    dW = torch.zeros(B, mm, dtype=torch.float64)
                    for c, a in enumerate(incs):
                        dW[:, c] = a * math.sqrt(h) * torch.tensor([1.0, -0.7])[:B]
                    if mm > 2:
                        dW[:, 2:] = 0.3 * math.sqrt(h)
                    y0 = zoo.y0_for(prog, B)
                    stub = seams.StubBM(dW)
                    # the solver's nominal dt may be longer than the step actually taken (clipped / adaptive steps)
                    fwd = zoo.make_solver(prog, stub, 'reversible_heun', nominal * h)
                    bwd = zoo.make_solver(rprog, stub, 'reversible_heun', nominal * h)
                    ta, tb = torch.tensor(t0, dtype=torch.float64), torch.tensor(t0 + h, dtype=torch.float64)
                    # a generic (not freshly initialised) extra state: take one warm-up step first
                    e0 = fwd.init_extra_solver_state(ta - h, y0)
                    y_s, e_s = fwd.step(ta - h, ta, y0, e0)
                    y1, (f1, g1, z1) = fwd.step(ta, tb, y_s, e_s)
                    yb, (fb, gb, zb) = bwd.step(-tb, -ta, y1, (-f1, -g1, z1))
                    out.count('executions')
                    errs = dict(y=float((yb - y_s).abs().max()), f=float((-fb - e_s[0]).abs().max()),
                                g=float((-gb - e_s[1]).abs().max()), z=float((zb - e_s[2]).abs().max()))
                    sc = max(1.0, float(y1.abs().max()), float(z1.abs().max()))
                    if max(errs.values()) > 1e-12 * sc:
                        out.violation(dict(kind='single_step', noise_type=nt),
                                      f"{pname} h={h} (solver dt={nominal}h) t0={t0} dW nodes {incs}: reverse step does "
                                      f"not return the input (errors {errs})",
                                      dict(engine='D-c15', program=pname, h=h, t0=t0, nodes=incs, nominal=nominal))
                    else:
                        out.keys.add(('step', nt, pname, h, t0, incs, nominal))
                    out.mx('max_single_step_error', max(errs.values()))
            # ---- (ii-b) irregular output grid, dt larger than some gaps (clipped steps), extra state carried
            for tsl, dtn in (([0., 0.3, 0.5, 0.55, 1.0], 0.5), ([0., 0.7], 1.0), ([0., 0.125, 0.4], 0.3)):  # every gap <= dt
                y0 = zoo.y0_for(prog, B)
                bm = zoo.make_bm(prog, B, 'none', unit['entropy'] + 3)
                rbm = torchsde.ReverseBrownian(bm)
                y, extra = y0, None
                states = [y0]
                for a, b_ in zip(tsl[:-1], tsl[1:]):
                    ys_, extra = torchsde.sdeint(prog, y, torch.tensor([a, b_], dtype=torch.float64), bm=bm,
                                                 method='reversible_heun', dt=dtn, extra=True, extra_solver_state=extra)
                    y = ys_[-1]
                    states.append(y)
                f_, g_, z_ = extra
                rextra = (-f_, -g_, z_)
                yb = y
                worst = 0.0
                for k in range(len(tsl) - 1, 0, -1):
                    yr, rextra = torchsde.sdeint(rprog, yb, torch.tensor([-tsl[k], -tsl[k - 1]], dtype=torch.float64),
                                                 bm=rbm, method='reversible_heun', dt=dtn, extra=True,
                                                 extra_solver_state=rextra)
                    yb = yr[-1]
                    worst = max(worst, float((yb - states[k - 1]).abs().max()))
                out.count('executions')
                if worst > 1e-10 * max(1.0, float(torch.stack(states).abs().max())):
                    out.violation(dict(kind='irregular_grid', noise_type=nt),
                                  f"{pname}: ts={tsl}, dt={dtn} (steps shorter than dt): forward states not "
                                  f"reconstructed, error {worst}", dict(engine='D-c15', program=pname, ts=tsl, dt=dtn,
                                                                        entropy=unit['entropy']))
                else:
                    out.keys.add(('irregular', nt, pname, tuple(tsl), dtn))
            # ---- (ii) multi step through sdeint(extra=True) and ReverseBrownian
            for h, n in itertools.product([2.0 ** -k for k in (3, 5, 6)], (1, 2, 5, 20)):
                T = n * h
                ts = torch.tensor([k * h for k in range(n + 1)], dtype=torch.float64)
                y0 = zoo.y0_for(prog, B)
                bm = zoo.make_bm(prog, B, 'none', unit['entropy'], t1=max(T, 1.0))
                ys, (f, g, z) = torchsde.sdeint(prog, y0, ts, bm=bm, method='reversible_heun', dt=h, extra=True)
                rts = -ts.flip(0)
                rbm = torchsde.ReverseBrownian(bm)

                def back(yT, zT):
                    return torchsde.sdeint(rprog, yT, rts, bm=rbm, method='reversible_heun', dt=h,
                                           extra_solver_state=(-f, -g, zT))

                ysb = back(ys[-1], z)
                out.count('executions')
                # measured amplification of the reverse recursion
                delta = 1e-7
                pert = back(ys[-1] + delta, z + delta)
                kappa = max(1.0, float((pert - ysb).abs().max()) / delta)
                err = float((ysb.flip(0) - ys).abs().max())
                label = dict(noise_type=nt, program=pname, h=h, steps=n, kappa=kappa)
                if kappa > 1e4:
                    out.count('outside_stability_region')
                elif err > 1e-12 * kappa * (n + 1) * max(1.0, float(ys.abs().max())):
                    out.violation(dict(kind='multi_step', noise_type=nt),
                                  f"{label}: forward trajectory not reconstructed: error {err}",
                                  dict(engine='D-c15', entropy=unit['entropy'], **label))
                else:
                    out.keys.add(('multi', nt, pname, h, n))
                out.mx('max_multi_step_error', err)
                out.sample(label, limit=1)
    return out.pack()


def run(tier, seed):
    chk = Check('C15', tier, seed, 'exploration',
                rule="programs x 4 noise types x h in 2^-2..2^-6 x base times x Brownian increments on a 5-node "
                     "Gauss-Hermite grid per channel (single step from a generic extra state, scripted stub) and "
                     "n in {1,2,5,20} steps through sdeint(extra=True)/ReverseBrownian; the reverse step applied to "
                     "the forward step's output must return (y,f,g,z) to 1e-12")
    units = [dict(nt=nt, tier=tier, entropy=150 + seed) for nt in zoo.NOISE_TYPES]
    for part in pmap(unit_fn, units):
        chk.merge(part)
    return chk


if __name__ == '__main__':
    main(run)
