"""C20 - batch rows are independent samples with no cross-talk (engines C+A)."""
import itertools
import warnings

import torch

import torchsde

from .. import seams
from .. import zoo
from .. import bm_machine as bmm
from ..core import Check, pmap, main
from ..explore import Out


class PermBM(torchsde.BaseBrownian):
    """Brownian motion whose batch rows are those of `base` permuted (row r of this = row perm[r] of base)."""

    def __init__(self, base, perm):
        super().__init__()
        self.base, self.perm = base, perm

    def __call__(self, ta, tb=None, return_U=False, return_A=False):
        o = self.base(ta, tb, return_U=return_U, return_A=return_A)
        if torch.is_tensor(o):
            return o[self.perm]
        return tuple(x[self.perm] for x in o)

    def __repr__(self):
        return "PermBM()"

    dtype = property(lambda s: s.base.dtype)
    device = property(lambda s: s.base.device)
    shape = property(lambda s: s.base.shape)
    levy_area_approximation = property(lambda s: s.base.levy_area_approximation)


def solver_unit(unit):
    out = Out()
    cell = tuple(unit['cell'])
    st, nt, method, opts = cell
    d, m = (2, 2) if nt != 'scalar' else (2, 1)
    with torch.no_grad(), warnings.catch_warnings():
        warnings.simplefilter('ignore')
        for B in (2, 3):
            prog = zoo.Prog(nt, st, d, m, 1 if nt in ('scalar', 'general') else 0)
            y0 = zoo.y0_for(prog, B)
            ts = torch.tensor([0., 0.3, 0.5], dtype=torch.float64)
            levy = zoo.levy_for(method)
            bm = zoo.make_bm(prog, B, levy, unit['entropy'], t1=0.5)
            ref = torchsde.sdeint(prog, y0, ts, bm=bm, method=method, dt=0.125, options=dict(opts))
            label0 = dict(cell=zoo.cell_name(cell), batch=B)
            # (a) perturb another row of y0
            for i, j in itertools.permutations(range(B), 2):
                y1 = y0.clone()
                y1[j] += 0.37
                ys = torchsde.sdeint(prog, y1, ts, bm=bm, method=method, dt=0.125, options=dict(opts))
                out.count('executions')
                if not torch.equal(ys[:, i], ref[:, i]):
                    out.violation(dict(kind='y0_crosstalk', cell=zoo.cell_name(cell)),
                                  f"{label0}: row {i} of the solution changed when row {j} of y0 changed",
                                  dict(engine='C-c20', row=i, perturbed_row=j, entropy=unit['entropy'], **label0))
                elif torch.equal(ys[:, j], ref[:, j]):
                    out.violation(dict(kind='harness', cell=zoo.cell_name(cell)), "perturbation had no effect", {})
                else:
                    out.keys.add(('y0', zoo.cell_name(cell), B, i, j))
            # (b) perturb another row of the noise: one element of the top-level W draw
            mm = prog.d if nt == 'diagonal' else prog.m
            for i, j in itertools.permutations(range(B), 2):
                with seams.NoiseSeam('table') as s0:
                    bm0 = zoo.make_bm(prog, B, levy, unit['entropy'], t1=0.5)
                    r0 = torchsde.sdeint(prog, y0, ts, bm=bm0, method=method, dt=0.125, options=dict(opts))
                draws = []
                for size, sd in s0.log:
                    if (size, sd) not in draws:
                        draws.append((size, sd))
                for size, sd in draws[:6]:
                    per_row = len(size) >= 2 and size[0] == B
                    idx = ((j,) if per_row else (0,)) + (0,) * (len(size) - 1)
                    with seams.NoiseSeam('table', perturb=(sd, idx, 0.5, size)):
                        bm1 = zoo.make_bm(prog, B, levy, unit['entropy'], t1=0.5)
                        r1 = torchsde.sdeint(prog, y0, ts, bm=bm1, method=method, dt=0.125, options=dict(opts))
                    out.count('executions')
                    rows_moved = [r for r in range(B) if not torch.equal(r1[:, r], r0[:, r])]
                    if len(rows_moved) > 1:
                        out.violation(dict(kind='noise_crosstalk', cell=zoo.cell_name(cell)),
                                      f"{label0}: one element of a noise draw of shape {size} moves rows {rows_moved} "
                                      f"of the solution (rows must be independent paths)",
                                      dict(engine='C-c20', perturbed=list(idx), draw_shape=list(size),
                                           entropy=unit['entropy'], **label0))
                    elif not torch.equal(r1[:, i], r0[:, i]) and per_row:
                        out.violation(dict(kind='noise_crosstalk', cell=zoo.cell_name(cell)),
                                      f"{label0}: row {i} of the solution changed when noise element {idx} of draw "
                                      f"(size {size}) changed", dict(engine='C-c20', row=i, perturbed=list(idx),
                                                                     entropy=unit['entropy'], **label0))
                    elif not torch.equal(r1[:, j], r0[:, j]):
                        out.keys.add(('noise', zoo.cell_name(cell), B, i, j, size))
                        out.count('effective_noise_perturbations')
            # (c) row permutations
            for perm in itertools.permutations(range(B)):
                if list(perm) == list(range(B)):
                    continue
                p = torch.tensor(perm)
                ys = torchsde.sdeint(prog, y0[p], ts, bm=PermBM(bm, p), method=method, dt=0.125, options=dict(opts))
                out.count('executions')
                if not torch.equal(ys, ref[:, p]):
                    out.violation(dict(kind='permutation', cell=zoo.cell_name(cell)),
                                  f"{label0}: permuting rows by {perm} does not permute the outputs (max diff "
                                  f"{float((ys - ref[:, p]).abs().max())})",
                                  dict(engine='C-c20', perm=list(perm), entropy=unit['entropy'], **label0))
                else:
                    out.keys.add(('perm', zoo.cell_name(cell), B, perm))
    out.sample(dict(cell=zoo.cell_name(cell), batches=[2, 3]), limit=1)
    return out.pack()


def element_unit(unit):
    """Brownian side: perturbing one noise element moves only what the property allows, for every element of every
    draw (W-, H- and Levy-noise of every tree node touched by the history)."""
    out = Out()
    levy, size = unit['levy'], tuple(unit['size'])
    cfg = bmm.cfg_make(size=size, levy=levy, cache_size=unit['cache'], dt=unit.get('dt'))
    hist = [('d', 0., 1.), ('d', 0.25, 0.75), ('d', 0., 0.25), ('d', 0.25, 1 / 3), ('d', 0.1, 0.9), ('d', 0.75, 1.)]

    def runall(perturb):
        with seams.NoiseSeam('table', perturb=perturb) as s:
            b = bmm.Built(cfg, unit['entropy'])
            return [b.q(a, c, 'd') for _, a, c in hist], list(s.log)

    base, log = runall(None)
    draws = []
    for sz, sd in log:
        if (sz, sd) not in draws:
            draws.append((sz, sd))
    nb = len(size)
    for sz, sd in draws:
        is_area = len(sz) == nb + 1
        shaped = tuple(sz) == tuple(size) or (is_area and tuple(sz) == tuple(size) + tuple(size[-1:]))
        for idx in itertools.product(*[range(n) for n in sz]):
            pert, _ = runall((sd, idx, 0.75, sz))
            out.count('executions')
            moved = False
            for (W0, U0, A0), (W1, U1, A1) in zip(base, pert):
                for name, x0, x1 in (('W', W0, W1), ('U', U0, U1), ('A', A0, A1)):
                    if x0 is None:
                        continue
                    ch = (x0 != x1)
                    if not bool(ch.any()):
                        continue
                    moved = True
                    # rows (all batch dimensions) are independent paths: one noise element moves at most one of them
                    if nb >= 1:
                        nbatch = nb - 1 if nb >= 2 else 1
                        flat = ch.reshape(ch.shape[:nbatch] + (-1,)).any(dim=-1)
                        if int(flat.sum()) > 1:
                            out.violation(dict(kind='row_crosstalk', levy=levy, ndim=nb, moved=name),
                                          f"size={size} levy={levy}: perturbing one element {idx} of a noise draw of "
                                          f"shape {sz} moved {int(flat.sum())} batch rows of {name}",
                                          dict(engine='A-c20', cfg=cfg, entropy=unit['entropy'],
                                               draw=[list(sz), sd], element=list(idx)))
                            return out.pack()
                    if not shaped:
                        continue
                    allowed = torch.zeros_like(ch)
                    if nb == 0:
                        allowed[...] = True
                    elif nb == 1:
                        allowed[idx[0]] = True
                    else:
                        bidx = idx[:nb - 1]
                        if name in 'WU':
                            if is_area:
                                pass  # Levy noise must not move W or U at all
                            else:
                                allowed[bidx + (idx[nb - 1],)] = True
                        else:
                            if is_area:
                                i, j = idx[-2], idx[-1]
                                allowed[bidx + (i, j)] = True
                                allowed[bidx + (j, i)] = True
                            else:
                                i = idx[nb - 1]
                                allowed[bidx + (i,)] = True
                                allowed[bidx + (slice(None), i)] = True
                    if bool((ch & ~allowed).any()):
                        where = (ch & ~allowed).nonzero()[0].tolist()
                        out.violation(dict(kind='element_crosstalk', levy=levy, ndim=nb, moved=name, area_noise=is_area),
                                      f"size={size} levy={levy}: perturbing element {idx} of a noise draw of shape {sz} "
                                      f"moved {name}{where}", dict(engine='A-c20', cfg=cfg, entropy=unit['entropy'],
                                                                   draw=[list(sz), sd], element=list(idx)))
                        return out.pack()
            if moved:
                out.keys.add(('elem', levy, size, sz, sd, idx))
    out.sample(dict(levy=levy, size=list(size), draws=len(draws)), limit=1)
    return out.pack()


def dispatch(unit):
    return solver_unit(unit) if unit['what'] == 'solver' else element_unit(unit)


def run(tier, seed):
    chk = Check('C20', tier, seed, 'exploration',
                rule="every supported cell x batch {2,3} x every ordered row pair (perturb the other row of y0; perturb "
                     "the other row of each distinct noise draw through the numeric-table seam) x every row "
                     "permutation, all bitwise; Brownian side: every element of every noise draw (W, H, Levy noise of "
                     "every node the history touches) perturbed, only the allowed entries may move; distinct "
                     "perturbations that had an effect")
    units = [dict(what='solver', cell=list(c), entropy=200 + seed) for c in zoo.cells()]
    for levy, size, cache in itertools.product(zoo.LEVY, [(), (3,), (2, 3), (2, 2, 2)], [1, None]):
        units.append(dict(what='element', levy=levy, size=list(size), cache=cache, entropy=200 + seed))
    for part in pmap(dispatch, units):
        chk.merge(part)
    return chk


if __name__ == '__main__':
    main(run)
