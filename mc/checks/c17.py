"""C17 - special noise types agree with their general-noise embedding (engines C+D)."""
import itertools
import warnings

import torch
from torch import nn

import torchsde

from .. import zoo
from ..core import Check, pmap, main
from ..explore import Out

SOLVERS = [('ito', 'euler', 'none'), ('stratonovich', 'euler_heun', 'none'), ('stratonovich', 'heun', 'none'),
           ('stratonovich', 'midpoint', 'none'), ('stratonovich', 'reversible_heun', 'none'),
           ('stratonovich', 'log_ode', 'davie'), ('stratonovich', 'log_ode', 'foster')]


class Embed(nn.Module):
    def __init__(self, prog):
        super().__init__()
        self.prog = prog
        self.noise_type = 'general'
        self.sde_type = prog.sde_type

    def f(self, t, y):
        return self.prog.f(t, y)

    def g(self, t, y):
        g = self.prog.g(t, y)
        return torch.diag_embed(g) if self.prog.noise_type == 'diagonal' else g


def unit_fn(unit):
    out = Out()
    st, method, levy = unit['solver']
    nt = unit['nt']
    with torch.no_grad(), warnings.catch_warnings():
        warnings.simplefilter('ignore')
        for (name, prog), B, dt, adaptive in itertools.product(zoo.programs(nt, st, 'thorough'), (1, 3),
                                                               (0.125, 0.3), (False,)):
            y0 = zoo.y0_for(prog, B)
            ts = torch.tensor([0., 0.25, 0.7, 1.0], dtype=torch.float64)
            bm1 = zoo.make_bm(prog, B, levy, unit['entropy'])
            bm2 = zoo.make_bm(prog, B, levy, unit['entropy'])
            a = torchsde.sdeint(prog, y0, ts, bm=bm1, method=method, dt=dt)
            b = torchsde.sdeint(Embed(prog), y0, ts, bm=bm2, method=method, dt=dt)
            out.count('executions')
            err = float((a - b).abs().max())
            label = dict(noise_type=nt, sde_type=st, method=method, levy=levy, program=name, batch=B, dt=dt)
            if err > 1e-13 * max(1.0, float(a.abs().max())):
                out.violation(dict(kind='embedding', noise_type=nt, method=method, levy=levy),
                              f"{label}: special declaration and general embedding differ by {err}",
                              dict(engine='C-c17', entropy=unit['entropy'], **label))
            else:
                out.keys.add((nt, st, method, levy, name, B, dt))
            out.mx('max_abs_difference', err)
            out.sample(label, limit=1)
    return out.pack()


def run(tier, seed):
    chk = Check('C17', tier, seed, 'exploration',
                rule="{diagonal, scalar, additive} programs x their d x m general embedding x the 7 solver/Levy "
                     "combinations that accept both declarations x batch {1,3} x dt {1/8, 0.3 (unaligned)} under "
                     "equal-entropy Brownian motions; equality to 1e-13; distinct (noise, solver, program, batch, dt)")
    units = [dict(solver=list(s), nt=nt, entropy=170 + seed)
             for s in SOLVERS for nt in ('diagonal', 'scalar', 'additive')]
    for part in pmap(unit_fn, units):
        chk.merge(part)
    return chk


if __name__ == '__main__':
    main(run)
