"""C01 - solutions converge to the true SDE solution at the advertised strong order (engines C+D).

What enumeration can decide here (DESIGN section 8): for every supported cell, (1) a dyadic dt ladder on closed-form
problems over a fixed finite path set (all rungs see the same Brownian paths: one BrownianInterval queried at
different resolutions), (2) the N-step result is the N-fold composition of `step` on the recorded increments, so the
local obligations of C02 compose (Milstein's fundamental theorem), (3) adaptive runs along a tolerance ladder.
"""
import itertools
import math
import warnings

import torch
from torch import nn

import torchsde

from .. import seams
from .. import zoo
from ..core import Check, pmap, main
from ..explore import Out


class Problem(nn.Module):
    def __init__(self, sde_type, noise_type):
        super().__init__()
        self.sde_type, self.noise_type = sde_type, noise_type


class GBM(Problem):
    """diagonal: dy_i = mu_i y_i dt + s_i y_i dW_i"""
    name = 'gbm'

    def __init__(self, st, nt='diagonal'):
        super().__init__(st, nt)
        self.mu = torch.tensor([0.4, -0.6], dtype=torch.float64)
        self.s = torch.tensor([0.7, 0.5], dtype=torch.float64)
        self.d, self.m = 2, 2

    def f(self, t, y):
        return self.mu * y

    def g(self, t, y):
        return self.s * y

    def y0(self, P):
        return torch.full((P, 2), 0.8, dtype=torch.float64)

    def exact(self, y0, t, W):
        c = self.mu - (0.5 * self.s ** 2 if self.sde_type == 'ito' else 0.)
        return y0 * torch.exp(c * t + self.s * W)


class TimeGBM(Problem):
    """explicitly time-dependent diffusion: dY = a Y dt + (b + t) Y dW; the exact solution needs W_T and U = int W ds"""
    name = 'timegbm'
    needs_U = True

    def __init__(self, st, nt='diagonal'):
        super().__init__(st, nt)
        self.a, self.b = 0.2, 0.3
        self.d, self.m = 1, 1

    def f(self, t, y):
        return self.a * y

    def g(self, t, y):
        t = torch.as_tensor(t, dtype=y.dtype)
        g = (self.b + t) * y
        return g if self.noise_type == 'diagonal' else g.unsqueeze(-1)

    def y0(self, P):
        return torch.full((P, 1), 0.7, dtype=torch.float64)

    def exact(self, y0, T, W, U=None):
        stoch = (self.b + T) * W - U  # int_0^T (b + s) dW_s
        det = self.a * T
        if self.sde_type == 'ito':
            det = det - ((self.b + T) ** 3 - self.b ** 3) / 6  # - 1/2 int (b+s)^2 ds
        return y0 * torch.exp(det + stoch)


class ArcTan(Problem):
    """diagonal, nonlinear diffusion with g'' != 0:  dy = p cos^2(y) o dW,  y = arctan(p W + tan y0)"""
    name = 'arctan'

    def __init__(self, st, nt='diagonal'):
        super().__init__(st, nt)
        self.p = 0.9
        self.d, self.m = 1, 1

    def f(self, t, y):
        if self.sde_type == 'ito':
            return -self.p ** 2 * torch.sin(y) * torch.cos(y) ** 3
        return torch.zeros_like(y)

    def g(self, t, y):
        g = self.p * torch.cos(y) ** 2
        return g if self.noise_type == 'diagonal' else g.unsqueeze(-1)

    def y0(self, P):
        return torch.full((P, 1), 0.4, dtype=torch.float64)

    def exact(self, y0, t, W):
        return torch.atan(self.p * W + torch.tan(y0))


class MatExp(Problem):
    """scalar noise, non-symmetric Jacobian:  dy = A y o dW  ->  y = expm(A W) y0 (Ito: expm(A W - A^2 t/2))"""
    name = 'matexp'

    def __init__(self, st, nt='scalar'):
        super().__init__(st, nt)
        self.A = torch.tensor([[0.3, 0.9], [-0.2, 0.1]], dtype=torch.float64)
        self.d, self.m = 2, 1

    def f(self, t, y):
        return torch.zeros_like(y)

    def g(self, t, y):
        return (y @ self.A.T).unsqueeze(-1)

    def y0(self, P):
        return torch.tensor([[1.0, 0.5]], dtype=torch.float64).repeat(P, 1)

    def exact(self, y0, t, W):
        M = self.A.unsqueeze(0) * W.reshape(-1, 1, 1)
        if self.sde_type == 'ito':
            M = M - 0.5 * (self.A @ self.A) * t
        return torch.einsum('pij,pj->pi', torch.matrix_exp(M), y0)


class ExAdditive(Problem):
    """time-dependent additive noise: y = y0/sqrt(1+t) + b (t + a W)/sqrt(1+t)"""
    name = 'exadditive'

    def __init__(self, st, nt='additive'):
        super().__init__(st, nt)
        self.a, self.b = 0.5, 0.8
        self.d, self.m = 1, 1

    def f(self, t, y):
        t = torch.as_tensor(t, dtype=y.dtype)
        return self.b / torch.sqrt(1 + t) - y / (2 * (1 + t))

    def g(self, t, y):
        t = torch.as_tensor(t, dtype=y.dtype)
        return (self.a * self.b / torch.sqrt(1 + t)).expand(y.shape[0], 1, 1)

    def y0(self, P):
        return torch.full((P, 1), 0.3, dtype=torch.float64)

    def exact(self, y0, t, W):
        return y0 / math.sqrt(1 + t) + self.b * (t + self.a * W) / math.sqrt(1 + t)


class CommGeneral(Problem):
    """general noise with commuting, non-symmetric columns: dy = sum_k A_k y o dW_k, A_2 a polynomial in A_1"""
    name = 'commgeneral'

    def __init__(self, st, nt='general'):
        super().__init__(st, nt)
        A1 = torch.tensor([[0.2, 0.7], [-0.3, 0.1]], dtype=torch.float64)
        A2 = 0.5 * A1 @ A1 + 0.3 * torch.eye(2, dtype=torch.float64)
        self.As = torch.stack([A1, A2])
        self.d, self.m = 2, 2

    def f(self, t, y):
        return torch.zeros_like(y)

    def g(self, t, y):
        return torch.stack([y @ A.T for A in self.As], dim=-1)

    def y0(self, P):
        return torch.tensor([[1.0, 0.5]], dtype=torch.float64).repeat(P, 1)

    def exact(self, y0, t, W):
        M = torch.einsum('kij,pk->pij', self.As, W)
        if self.sde_type == 'ito':
            M = M - 0.5 * sum(A @ A for A in self.As) * t
        return torch.einsum('pij,pj->pi', torch.matrix_exp(M), y0)


PROBLEMS = {'diagonal': [GBM, ArcTan, TimeGBM],
            'scalar': [MatExp, lambda st: ArcTan(st, 'scalar'), lambda st: TimeGBM(st, 'scalar')],
            'additive': [ExAdditive],
            'general': [CommGeneral]}


def rms(a, b):
    return float(((a - b) ** 2).sum(dim=1).mean().sqrt())


def ladder_unit(unit):
    out = Out()
    cell = tuple(unit['cell'])
    st, nt, method, opts = cell
    name = zoo.cell_name(cell)
    P = unit['paths']
    levy = zoo.levy_for(method)
    if levy == 'none':
        levy = 'space-time'  # every solver accepts it; gives access to U for exact solutions with time-dependent g
    with torch.no_grad(), warnings.catch_warnings():
        warnings.simplefilter('ignore')
        for mk in PROBLEMS[nt]:
            prob = mk(st)
            y0 = prob.y0(P)
            ts = torch.tensor([0., 1.], dtype=torch.float64)
            for pset in range(unit['path_sets']):
                bm = torchsde.BrownianInterval(0., 1., size=(P, prob.m), dtype=torch.float64,
                                               entropy=unit['entropy'] + 1000 * pset, levy_area_approximation=levy)
                if getattr(prob, 'needs_U', False):
                    W_, U_ = bm(0., 1., return_U=True)
                    exact = prob.exact(y0, 1.0, W_, U_)
                else:
                    exact = prob.exact(y0, 1.0, bm(0., 1.))
                errs = []
                p_adv = None
                for k in unit['rungs']:
                    dt = 2.0 ** -k
                    ys = torchsde.sdeint(prob, y0, ts, bm=bm, method=method, dt=dt, options=dict(opts))
                    errs.append(rms(ys[-1], exact))
                    out.count('executions')
                p_adv = zoo.doc_strong_order(method, nt)
                xs = [-k for k in unit['rungs']]
                lx = [math.log2(max(e, 1e-300)) for e in errs]
                n = len(xs)
                mx, my = sum(xs) / n, sum(lx) / n
                slope = sum((x - mx) * (y - my) for x, y in zip(xs, lx)) / sum((x - mx) ** 2 for x in xs)
                label = dict(cell=name, problem=prob.name, path_set=pset, paths=P, advertised=p_adv,
                             slope=round(slope, 3), errors=[float('%.3g' % e) for e in errs],
                             rungs=[f"2^-{k}" for k in unit['rungs']])
                exact_scheme = max(errs) < 1e-10
                if not exact_scheme and slope < p_adv - 0.3:
                    out.violation(dict(kind='strong_order', cell=name, problem=prob.name),
                                  f"{name} on {prob.name}: RMS error over {P} fixed paths decays with slope "
                                  f"{slope:.2f} along dt=2^-{unit['rungs'][0]}..2^-{unit['rungs'][-1]}; advertised "
                                  f"strong order {p_adv} (errors {label['errors']})",
                                  dict(engine='D-c01', entropy=unit['entropy'], **label))
                elif not exact_scheme and not errs[-1] < errs[0]:
                    out.violation(dict(kind='no_convergence', cell=name, problem=prob.name),
                                  f"{name} on {prob.name}: error at the finest rung is not below the coarsest: "
                                  f"{label['errors']}", dict(engine='D-c01', entropy=unit['entropy'], **label))
                else:
                    out.keys.add((name, prob.name, pset))
                out.sample(label, limit=2)
            # (2) composition: the N-step solve is the N-fold composition of step on the recorded increments
            dt = 2.0 ** -unit['rungs'][1]
            bm = seams.RecordingBM(torchsde.BrownianInterval(0., 1., size=(4, prob.m), dtype=torch.float64,
                                                             entropy=unit['entropy'], levy_area_approximation=levy))
            y0s = prob.y0(4)
            ys = torchsde.sdeint(prob, y0s, ts, bm=bm, method=method, dt=dt, options=dict(opts))
            log = list(bm.log)
            solver = zoo.make_solver(prob, bm.base, method, dt, opts)
            y = y0s
            extra = solver.init_extra_solver_state(ts[0], y0s)
            for (a, b, _, _) in log:
                y, extra = solver.step(torch.tensor(a, dtype=torch.float64), torch.tensor(b, dtype=torch.float64), y,
                                       extra)
            out.count('executions')
            if not torch.equal(y, ys[-1]):
                out.violation(dict(kind='composition', cell=name), f"{name}: sdeint is not the composition of step over "
                              f"its recorded increments", dict(engine='D-c01', cell=name, problem=prob.name))
            # (3) adaptive: error shrinks as tolerances are tightened
            if unit.get('adaptive', True):
                bm = torchsde.BrownianInterval(0., 1., size=(P, prob.m), dtype=torch.float64,
                                               entropy=unit['entropy'] + 7, levy_area_approximation=levy)
                if getattr(prob, 'needs_U', False):
                    W_, U_ = bm(0., 1., return_U=True)
                    exact = prob.exact(y0, 1.0, W_, U_)
                else:
                    exact = prob.exact(y0, 1.0, bm(0., 1.))
                aerrs = []
                for k in unit['tols']:
                    tol = 10.0 ** -k
                    ys = torchsde.sdeint(prob, y0, ts, bm=bm, method=method, dt=0.25, adaptive=True, rtol=tol,
                                         atol=tol, dt_min=1e-6, options=dict(opts))
                    aerrs.append(rms(ys[-1], exact))
                    out.count('executions')
                lab = dict(cell=name, problem=prob.name, tolerances=[10.0 ** -k for k in unit['tols']],
                           errors=[float('%.3g' % e) for e in aerrs])
                if max(aerrs) > 1e-10:
                    inc = [b > 2.0 * a + 1e-12 for a, b in zip(aerrs[:-1], aerrs[1:])]
                    if any(inc) or not aerrs[-1] < aerrs[0]:
                        out.violation(dict(kind='adaptive_tolerance', cell=name, problem=prob.name),
                                      f"{name} on {prob.name}: tightening tolerances does not shrink the error: {lab}",
                                      dict(engine='D-c01', entropy=unit['entropy'], **lab))
                    else:
                        out.keys.add((name, prob.name, 'adaptive'))
    return out.pack()


def run(tier, seed):
    chk = Check('C01', tier, seed, 'exploration',
                rule="every supported cell (incl. grad-free Milstein) x closed-form problems of its noise type (GBM, "
                     "arctan with g''!=0, matrix exponential with non-symmetric Jacobian, time-dependent additive, "
                     "commuting general) x dyadic dt ladder over fixed path sets realised as batch rows of one "
                     "BrownianInterval; least-squares slope of log2 RMS error >= advertised order - 0.3; composition "
                     "of step; adaptive tolerance ladder; distinct (cell, problem, path set)")
    if tier == 'quick':
        cfg = dict(paths=1024, path_sets=1, rungs=[3, 4, 5, 6, 7], tols=[2, 3, 4])
    else:
        cfg = dict(paths=1024, path_sets=4, rungs=[3, 4, 5, 6, 7, 8, 9], tols=[2, 3, 4, 5])
    units = [dict(cell=list(c), entropy=10 + seed, **cfg) for c in zoo.cells()]
    for part in pmap(ladder_unit, units):
        chk.merge(part)
    chk.assumptions = ["the limit dt->0 and the expectation over Wiener measure are not decided by enumeration: the "
                       "ladder is a bounded witness on a fixed finite path set; the order claim rests on C02 (local "
                       "obligations at exactly the advertised order) + composition + C03/C04 (the driver is one "
                       "Brownian path with the right law) via Milstein's fundamental theorem"]
    return chk


if __name__ == '__main__':
    main(run)
