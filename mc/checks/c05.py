"""C05 - repeated queries return bit-identical values whatever happened in between.

Engine A.  Oracle: the first answer ever given for an interval (kept by Replay); every later answer for the same
interval - during the history, in the re-issue passes of the visitor, through ReverseBrownian - must be
torch.equal to it (W, U and A).
"""
import itertools

from .. import bm_machine as bmm
from .. import explore as ex
from ..core import Check, pmap, main

KINDS = ('repeat',)


def visitor(rp, history, answers, out, opts):
    """Re-issue every distinct query of the history: in order, in reverse order, and once more through the other
    wrapper direction (ReverseBrownian must see exactly the noise of the forward pass: W bitwise)."""
    qs = []
    seen = set()
    for (via, a, b), ans in answers:
        k = (via, a, b)
        if k not in seen:
            seen.add(k)
            qs.append(k)
    n0 = len(rp.problems)
    for via, a, b in qs:
        rp.query(via, a, b)
    for via, a, b in reversed(qs):
        rp.query(via, a, b)
    out.count('reissued_queries', 2 * len(qs))
    # forward/backward agreement of W: query the same interval through the other handle
    import torch
    for via, a, b in qs[:40]:
        v = rp.cfg['via'] if via == 'd0' else via
        if v == 'p':
            continue
        other = 'r' if v == 'd' else 'd'
        x = rp.first.get((v, bmm.hexf(a), bmm.hexf(b)))
        y = rp.query(other, a, b)
        if x is not None and y is not None and not torch.equal(x[0], y[0]):
            rp.problems.append(('repeat', dict(at='query', exc='reverse_W_differs', q=[other, a, b], nq=rp.nq)))
        out.count('reverse_crosschecks')
    if rp.max_cache and rp.cfg['cache_size'] not in (None, 0) and rp.nq > rp.cfg['cache_size']:
        out.count('states_with_possible_eviction')


def configs(tier):
    sizes = [(), (2,), (2, 2)]
    levys = ['none', 'space-time', 'davie', 'foster']
    caches = [0, 1, 2, 45, None]
    dts = [None, 0.25, 1 / 16]
    out = []
    for size, levy, cache, dt in itertools.product(sizes, levys, caches, dts):
        out.append(bmm.cfg_make(size=size, levy=levy, cache_size=cache, dt=dt))
    # tolerance / dyadic modes and the derived classes
    for levy in levys:
        out.append(bmm.cfg_make(size=(2, 2), levy=levy, tol=0.1, cache_size=2))
        out.append(bmm.cfg_make(size=(2, 2), levy=levy, tol=0.1, halfway=True, cache_size=2))
    out.append(bmm.cfg_make(wrapper='path', size=(2, 2), cache_size=None))
    out.append(bmm.cfg_make(wrapper='tree', size=(2, 2), tol=0.01))
    # intervals that do not start at 0 (t0 < 0 < t1: a split point can be exactly 0.0)
    for levy, cache, dt in itertools.product(['none', 'space-time', 'foster'], [0, 1, 45, None], [None, 0.5]):
        out.append(bmm.cfg_make(size=(2, 2), levy=levy, cache_size=cache, dt=dt, t0=-1., t1=1.))
    out.append(bmm.cfg_make(size=(2, 2), levy='space-time', cache_size=2, t0=1., t1=3.))
    out.append(bmm.cfg_make(size=(2, 2), levy='space-time', cache_size=2, tol=0.1, halfway=True, t0=-1., t1=1.))
    out.append(bmm.cfg_make(wrapper='tree', size=(2, 2), tol=0.01, t0=-1., t1=1.))
    for levy in levys:
        out.append(bmm.cfg_make(size=(2, 2), levy=levy, cache_size=2, dtype='float32'))
    return out


def core_configs():
    out = []
    for levy, cache in itertools.product(['none', 'space-time', 'foster'], [1, 2, None]):
        out.append(bmm.cfg_make(size=(2, 2), levy=levy, cache_size=cache))
    out.append(bmm.cfg_make(size=(2, 2), levy='davie', cache_size=1, dt=0.25))
    out.append(bmm.cfg_make(size=(2,), levy='space-time', cache_size=2, dt=1 / 16))
    out.append(bmm.cfg_make(size=(2, 2), levy='space-time', tol=0.1, halfway=True, cache_size=2))
    return out


def run(tier, seed):
    chk = Check('C05', tier, seed, 'model_checking',
                rule="state = canonical (tree, cache contents, cursor, counters) + set of (query, first answer); "
                     "transitions = public queries executed on the real object; every distinct query of a history "
                     "is re-issued (in order and reversed, and through ReverseBrownian) in every reached state")
    entropy = 1000 + seed
    units = []
    ops_small = bmm.grid_ops(bmm.G4)
    ops_big = bmm.grid_ops(bmm.G8)
    common = dict(visitor='mc.checks.c05.visitor', kinds=KINDS, keymode='answers')
    for cfg in configs(tier):
        g = bmm.shift_grid(bmm.G4 if cfg['tol'] == 0 else bmm.G5, cfg['t0'], cfg['t1'])
        ops = bmm.grid_ops(g, point_eval=(cfg['wrapper'] != 'interval' or cfg['t0'] != 0. or cfg['cache_size'] == 2))
        units += ex.bfs_units(cfg, entropy, ops, 2, **common)
    cores = core_configs()
    if tier == 'thorough':
        cores = cores[:3] + cores[-3:]  # depth 3 over the 55-letter alphabet: 170 000 histories per configuration
    for cfg in cores:
        if tier == 'quick':
            ops = ops_small if cfg['tol'] == 0 else bmm.grid_ops(bmm.G5)
            units += ex.bfs_units(cfg, entropy, ops, 3, split=True, **common)
        else:
            ops = ops_big if cfg['tol'] == 0 else bmm.grid_ops(bmm.G10)
            units += ex.bfs_units(cfg, entropy, ops, 3, split=True, **common)
    # deep trees: two long sequential sweeps in different halves, then everything again backwards
    deep_hist = [['q', 0.5, 1.0], ['sweepF', 0.0, 70, 0.005], ['sweepF', 0.5, 70, 0.005], ['sweepB', 0.5, 70, 0.005],
                 ['sweepB', 0.0, 70, 0.005]]
    for levy, cache in [('space-time', 45), ('foster', 2), ('none', None)]:
        cfg = bmm.cfg_make(size=(2, 2), levy=levy, cache_size=cache)
        units.append(dict(kind='bfs', cfg=cfg, entropy=entropy, alphabet=[], prefix=deep_hist, depth=5, **common))
    # solver-shaped histories crossing the warm-up, with deviations
    dev_cfgs = [bmm.cfg_make(size=(2, 2), levy=levy, cache_size=cache, dt=dt)
                for levy, cache, dt in [('none', 45, None), ('space-time', 45, None), ('foster', 45, None),
                                        ('space-time', 2, None), ('space-time', None, None),
                                        ('space-time', 45, 1 / 130), ('davie', 1, 1 / 130),
                                        ('none', 0, None)]]
    dev_cfgs.append(bmm.cfg_make(wrapper='tree', size=(2, 2), tol=1e-4))
    dev_cfgs.append(bmm.cfg_make(wrapper='path', size=(2, 2), cache_size=None))
    Ns = [8, 130] if tier == 'quick' else [8, 130, 400]
    for cfg in dev_cfgs:
        for N in Ns:
            D = 2 if (tier == 'thorough' or N == 8) else 1
            if tier == 'thorough' and N >= 400 and cfg not in dev_cfgs[:2]:
                D = 1  # 2 deviations at N=400 (2701 placements x ~2500 queries) on two configurations only
            if tier == 'thorough' and N >= 130 and (cfg['wrapper'] == 'tree' or cfg['cache_size'] in (0, 1)):
                D = 1 if N == 130 else 0  # slow objects (dyadic tree to 1e-4, no cache): fewer deviations
            if cfg['cache_size'] == 0 and N > 8:
                D = 0 if tier == 'quick' else 1  # every query recomputes from the root: ~5 s per execution
            if cfg['wrapper'] == 'tree' and N > 8 and tier == 'quick':
                D = 0
            units += ex.dev_units(cfg, entropy, N, D, nchunks=8 if D else 1, **common)
    if tier == 'thorough':
        for cfg in dev_cfgs[:3]:
            units += ex.dev_units(cfg, entropy, 2000, 0, nchunks=1, **common)
    ex.selfcheck_determinism(entropy)
    chk.count('determinism_selfcheck_passed')
    chk.count('work_units', len(units))
    units.sort(key=lambda u: -(u.get('N', 0) * len(u.get('devsets', []))))
    for part in pmap(ex.run_unit, units):
        chk.merge(part)
    chk.expect('executions', len(units))
    chk.assumptions = ["bit-identity is judged with torch.equal in one process, one thread, float64",
                       "queries come from the stated grids / solver-shaped schedules only"]
    return chk


if __name__ == '__main__':
    main(run)
