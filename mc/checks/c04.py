"""C04 - Brownian samples have exactly the law of Brownian motion.

Engine A.  Labelled-noise seam: every W/H tensor the library returns is its exact coefficient row over independent
N(0,1) labels, so M M^T is the exact joint covariance of all probed statistics in the reached tree; it is compared
with the closed-form Brownian covariance (piecewise-linear Wiener kernels).  Davie/Foster: identity against the
logged Levy-area noise with the conditional variance the property prescribes.
"""
import itertools

import torch

from .. import bm_machine as bmm
from .. import bm_invariants as inv
from .. import explore as ex
from ..core import Check, pmap, main
from .c03 import given_tensors

KINDS = ()
K = 128


def labelled_configs(tier):
    out = []
    caches = [0, 1, 2, 45, None]
    dts = [None, 0.25, 1 / 16]
    for levy, cache, dt, given in itertools.product(['none', 'space-time'], caches, dts, ['none', 'W', 'WH']):
        if given == 'WH' and levy == 'none':
            continue
        out.append(bmm.cfg_make(size=(K,), levy=levy, cache_size=cache, dt=dt, given=given))
    for levy in ['davie', 'foster']:  # 1-D size: H is produced, A is identically zero
        out.append(bmm.cfg_make(size=(K,), levy=levy, cache_size=2))
    for levy in ['none', 'space-time']:
        for hw in (False, True):
            out.append(bmm.cfg_make(size=(K,), levy=levy, tol=0.1, halfway=hw, cache_size=2))
            out.append(bmm.cfg_make(size=(K,), levy=levy, tol=0.1, halfway=hw, cache_size=2, given='W'))
    # sample shape (B, K): rows are independent Brownian motions (labels idx*B + b per row)
    for levy, cache, dt in itertools.product(['none', 'space-time'], [1, None], [None, 0.25]):
        out.append(bmm.cfg_make(size=(2, K), levy=levy, cache_size=cache, dt=dt))
    out.append(bmm.cfg_make(size=(K,), levy='space-time', cache_size=2, via='r'))
    out.append(bmm.cfg_make(wrapper='tree', size=(K,), tol=0.01))
    out.append(bmm.cfg_make(wrapper='tree', size=(K,), tol=0.01, given='W'))
    out.append(bmm.cfg_make(wrapper='path', size=(K,), cache_size=None))
    for levy, cache in itertools.product(['none', 'space-time'], [1, None]):
        out.append(bmm.cfg_make(size=(K,), levy=levy, cache_size=cache, t0=-1., t1=1.))
    out.append(bmm.cfg_make(size=(K,), levy='space-time', cache_size=2, dt=0.5, t0=1., t1=3., given='WH'))
    return out


def levy_configs():
    out = []
    for levy, cache, dt, size in itertools.product(['davie', 'foster'], [0, 1, 2, None], [None, 0.25],
                                                   [(2, 2), (1, 3), (2, 1, 2)]):
        out.append(bmm.cfg_make(size=size, levy=levy, cache_size=cache, dt=dt))
    for levy in ['davie', 'foster']:
        out.append(bmm.cfg_make(size=(2, 2), levy=levy, tol=0.1, halfway=True, cache_size=2))
        out.append(bmm.cfg_make(size=(2, 2), levy=levy, cache_size=2, t0=-1., t1=1.))
    return out


def run(tier, seed):
    inv.selftest_reference()
    chk = Check('C04', tier, seed, 'model_checking',
                rule="state = canonical tree/cache/cursor of a live object under labelled noise; in every distinct "
                     "state the exact covariance M M^T of W and H over all grid intervals (plus off-grid tree "
                     "leaves) is compared entrywise with the closed-form Brownian covariance; Davie/Foster states "
                     "compare A with mean + sqrt(Var_ref/2)(N-N^T) from the logged noise")
    entropy = 3000 + seed
    units = []
    for cfg in labelled_configs(tier):
        grid = bmm.G4 if cfg['tol'] == 0 else bmm.G5
        if cfg['tol'] == 0.01:
            grid = [0., 0.13, 0.25, 0.5, 0.77, 1.0]
        grid = bmm.shift_grid(grid, cfg['t0'], cfg['t1'])
        vis = 'mc.bm_invariants.given_visitor' if cfg['given'] != 'none' else 'mc.bm_invariants.law_visitor'
        units += ex.bfs_units(cfg, entropy, bmm.grid_ops(grid, zero=False), 2, mode='labelled', K=K,
                              given=given_tensors(cfg), visitor=vis, kinds=KINDS, opts=dict(grid=grid))
    core = [bmm.cfg_make(size=(K,), levy='space-time', cache_size=c, dt=dt, given=g)
            for c, dt, g in [(2, None, 'none'), (None, None, 'none'), (1, 0.25, 'none'), (2, None, 'WH')]]
    core.append(bmm.cfg_make(size=(K,), levy='none', cache_size=2))
    core.append(bmm.cfg_make(size=(K,), levy='space-time', tol=0.1, halfway=True, cache_size=2))
    for cfg in core:
        if tier == 'quick':
            grid = bmm.G4 if cfg['tol'] == 0 else bmm.G5
        else:
            grid = bmm.G8 if cfg['tol'] == 0 else bmm.G10
        vis = 'mc.bm_invariants.given_visitor' if cfg['given'] != 'none' else 'mc.bm_invariants.law_visitor'
        units += ex.bfs_units(cfg, entropy, bmm.grid_ops(grid, zero=False), 3, split=True, mode='labelled', K=K,
                              given=given_tensors(cfg), visitor=vis, kinds=KINDS,
                              opts=dict(grid=bmm.G4 if cfg['tol'] == 0 else bmm.G5))
    for cfg in levy_configs():
        grid = bmm.shift_grid(bmm.G4 if cfg['tol'] == 0 else bmm.G5, cfg['t0'], cfg['t1'])
        units += ex.bfs_units(cfg, entropy, bmm.grid_ops(grid, zero=False), 2 if tier == 'quick' else 3,
                              split=(tier != 'quick'), mode='real',
                              visitor='mc.bm_invariants.levy_identity_visitor', kinds=KINDS, opts=dict(grid=grid))
    # two long sequential sweeps in different halves of the interval (no dt hint, < 100 queries each side of the
    # warm-up): two chains deeper than 32 / 64 levels whose nodes share long path suffixes.  Every node must still have
    # its own noise: probes are steps of both chains at the same depth.
    deep_hist = [['q', 0.5, 1.0], ['sweepF', 0.0, 70, 0.005], ['sweepF', 0.5, 70, 0.005]]
    deep_grid = [0.0, 0.17, 0.175, 0.18, 0.34, 0.345, 0.35, 0.5, 0.67, 0.675, 0.68, 0.84, 0.845, 0.85, 1.0]
    for levy, cache in [('space-time', 45), ('none', 45), ('space-time', None), ('space-time', 2)]:
        cfg = bmm.cfg_make(size=(1024,), levy=levy, cache_size=cache)
        units.append(dict(kind='bfs', cfg=cfg, entropy=entropy, alphabet=[], prefix=deep_hist, depth=3, mode='labelled',
                          K=1024, visitor='mc.bm_invariants.law_visitor', kinds=KINDS,
                          opts=dict(grid=deep_grid, leaves=False)))
    # solver-shaped histories under labelled noise (tree built by the warm-up / dependency-tree code)
    pg = [0., 1 / 8, 1 / 3, 0.5, 100 / 130, 1.0]
    for levy, cache, dt in [('space-time', 45, None), ('none', 45, None), ('space-time', 2, None),
                            ('space-time', 45, 1 / 130)]:
        cfg = bmm.cfg_make(size=(1024,), levy=levy, cache_size=cache, dt=dt)
        for N in ([8, 130] if tier == 'quick' else [8, 130, 300]):
            D = 2 if N == 8 else 1
            units += ex.dev_units(cfg, entropy, N, D, nchunks=8 if D == 2 else 4, mode='labelled', K=1024,
                                  visitor='mc.bm_invariants.law_visitor', kinds=KINDS,
                                  opts=dict(grid=pg, max_leaves=12))
    ex.selfcheck_determinism(entropy)
    chk.count('determinism_selfcheck_passed')
    chk.count('work_units', len(units))
    for part in pmap(ex.run_unit, units):
        chk.merge(part)
    chk.expect('executions', len(units))
    chk.assumptions = ["torch.randn streams with distinct seeds are independent standard normals (PyTorch/NumPy "
                       "SeedSequence are the trusted base); the check models 'same seed <=> same variable'",
                       "Gaussianity follows from linearity in the labels (rows are exact linear maps)"]
    return chk


if __name__ == '__main__':
    main(run)
