"""C02 - each solver step matches the stochastic Taylor expansion of the declared SDE (engine D).

The real solver.step is called with a scripted Brownian stub returning prescribed increments
dW = a eps, H = b eps/sqrt(12) (U = h (dW/2 + H)), A = c h/2 on Gauss-Hermite tensor grids, eps = sqrt(h) = 2^-k.
Obligations with p = the solver's advertised strong order:
  (i)  quadrature norm of R = step - Taylor_p over all nodes decays with slope >= 2p + 1/2 in eps (correct: 2p+1)
  (ii) |sum_w step - E[exact]_(<p+1)| decays with slope >= 2p + 3/2 (correct: 2p+2)
  (iii) Euler and derivative Milstein equal their textbook formulas (1e-13)
"""
import itertools
import math
import os
import warnings

import torch

from .. import refs
from .. import seams
from .. import zoo
from ..core import Check, pmap, main
from ..explore import Out

FLOOR = 1e-12


def increments(m, uses_U, uses_A, n_a, n_b, n_c, eps):
    ns = [n_a] * m + ([n_b] * m if uses_U else []) + ([n_c] * (m * (m - 1) // 2) if uses_A and m > 1 else [])
    nodes, w = refs.tensor_grid(ns)
    h = eps * eps
    a = nodes[:, :m]
    dW = a * eps
    if uses_U:
        b = nodes[:, m:2 * m]
        H = b * eps / math.sqrt(12)
    else:
        H = torch.zeros_like(dW)
    U = h * (0.5 * dW + H)
    A = torch.zeros(nodes.shape[0], m, m, dtype=torch.float64)
    if uses_A and m > 1:
        cc = nodes[:, (2 * m if uses_U else m):]
        for idx, (i, j) in enumerate(itertools.combinations(range(m), 2)):
            A[:, i, j] = cc[:, idx] * h / 2
            A[:, j, i] = -cc[:, idx] * h / 2
    return dW, U, A, w


def slopes(vals, eps_list):
    out = []
    for (v1, e1), (v2, e2) in zip(zip(vals[:-1], eps_list[:-1]), zip(vals[1:], eps_list[1:])):
        if v1 <= FLOOR or v2 <= FLOOR:
            out.append(None)
        else:
            out.append(math.log(v1 / v2) / math.log(e1 / e2))
    return out


def unit_fn(unit):
    out = Out()
    cell = tuple(unit['cell'])
    st, nt, method, opts = cell
    name = zoo.cell_name(cell)
    uses_U = method == 'srk'
    uses_A = method == 'log_ode'
    levy = 'space-time' if uses_U else ('foster' if uses_A else 'none')
    ks = unit['ks']
    eps_list = [2.0 ** -k for k in ks]
    n_a, n_b, n_c = unit['nodes']
    with warnings.catch_warnings():
        warnings.simplefilter('ignore')
        for (pname, prog), bp, nominal in itertools.product(zoo.programs(nt, st, unit['tier']), range(unit['nbase']),
                                                            (1.0, 3.0)):
            # nominal: the solver object's own `dt` as a multiple of the step actually taken (a step may be shorter
            # than the nominal dt: clipped last step, adaptive stepping); the step must depend on t1 - t0 only
            t0v = [0.2, 0.7][bp]
            ybase = zoo.y0_for(prog, 2, seed=bp)[bp]
            c = refs.Coeffs(prog, t0v, ybase)
            m = c.m
            norms, means = [], []
            p = None
            for eps in eps_list:
                h = eps * eps
                dW, U, A, w = increments(m, uses_U, uses_A, n_a, n_b, n_c, eps)
                N = dW.shape[0]
                stub = seams.StubBM(dW, U, A, levy=levy)
                solver = zoo.make_solver(prog, stub, method, nominal * h, opts)
                p = float(solver.strong_order)
                t0 = torch.tensor(t0v, dtype=torch.float64)
                t1 = t0 + h
                y0 = ybase.unsqueeze(0).repeat(N, 1)
                with torch.no_grad():
                    extra = solver.init_extra_solver_state(t0, y0)
                    y1, _ = solver.step(t0, t1, y0, extra)
                T = refs.taylor(c, p, h, dW, U)
                R = y1 - T
                norms.append(float(((R ** 2).sum(dim=1) * w).sum().sqrt()))
                M = refs.mean_exact(c, p, h)
                means.append(float(((y1 * w.unsqueeze(1)).sum(dim=0) - M).abs().max()))
                out.count('executions')
                out.count('step_evaluations', N)
                # (iii) textbook formulas
                if method == 'euler' or (method == 'milstein' and not opts.get('grad_free')):
                    tb = refs.taylor(c, 0.5 if method == 'euler' else 1.0, h, dW, U)
                    err = float((y1 - tb).abs().max())
                    if err > 1e-13 * max(1.0, float(tb.abs().max())):
                        out.violation(dict(kind='textbook', cell=name, program=pname),
                                      f"{name} {pname} h={h} (solver dt={nominal}h): step differs from the textbook "
                                      f"formula by {err}",
                                      dict(engine='D-c02', cell=name, program=pname, base_point=bp, h=h,
                                           nominal_dt_over_h=nominal))
            want = zoo.doc_strong_order(method, nt)
            if p != want:
                out.violation(dict(kind='advertised_order', cell=name),
                              f"{name}: solver advertises strong order {p}, documentation says {want}",
                              dict(engine='D-c02', cell=name))
            sn = slopes(norms, eps_list)
            sm = slopes(means, eps_list)
            label = dict(cell=name, program=pname, base_point=bp, p=p, nodes=[n_a, n_b, n_c], nominal_dt_over_h=nominal,
                         rms_remainder=[float('%.3g' % v) for v in norms], rms_slopes=[None if s is None else round(s, 2) for s in sn],
                         mean_remainder=[float('%.3g' % v) for v in means], mean_slopes=[None if s is None else round(s, 2) for s in sm])
            tail_n = [s for s in sn[-unit['tail']:] if s is not None]
            tail_m = [s for s in sm[-unit['tail']:] if s is not None]
            if os.environ.get('VERIF_DEBUG'):
                print(name, pname, bp, 'p', p, 'rms', label['rms_slopes'], 'mean', label['mean_slopes'],
                      'mean vals', label['mean_remainder'][-2:])
            if tail_n and min(tail_n) < 2 * p + 0.5:
                out.violation(dict(kind='local_rms_order', cell=name, program=pname),
                              f"{name} {pname}: quadrature-norm of step - Taylor_{p} decays with slope "
                              f"{[round(s, 2) for s in tail_n]} in eps=sqrt(h); needs >= {2 * p + 0.5} (a term of "
                              f"mean-square order <= h^{p} disagrees)", dict(engine='D-c02', **label))
            elif tail_m and min(tail_m) < 2 * p + 1.5:
                out.violation(dict(kind='local_mean_order', cell=name, program=pname),
                              f"{name} {pname}: |E step - E exact| decays with slope {[round(s, 2) for s in tail_m]} in "
                              f"eps; needs >= {2 * p + 1.5} (expectation must agree to O(h^{p + 1}))",
                              dict(engine='D-c02', **label))
            else:
                out.keys.add((name, pname, bp, nominal))
            out.sample(label, limit=1)
    return out.pack()


def run(tier, seed):
    chk = Check('C02', tier, seed, 'exploration',
                rule="every supported cell x programs of the alphabet x base points x Gauss-Hermite tensor grid of "
                     "increments (a per channel for dW, b per channel for H when used, c per pair for A when used) x "
                     "eps=sqrt(h) ladder; oracle = Kloeden-Platen strong Taylor expansion of the advertised order "
                     "built from explicit nested Jacobians; non-trivial = distinct (cell, program, base point) whose "
                     "slopes met both thresholds")
    if tier == 'quick':
        cfg = dict(ks=[2, 3, 4, 5, 6], nodes=(5, 3, 3), nbase=1, tail=2)
    else:
        cfg = dict(ks=[2, 3, 4, 5, 6, 7], nodes=(7, 5, 3), nbase=2, tail=2)
    units = [dict(cell=list(c), tier=tier, **cfg) for c in zoo.cells()]
    for part in pmap(unit_fn, units):
        chk.merge(part)
    chk.assumptions = ["asymptotic statement checked on a finite eps ladder (tail slopes)",
                       "polynomial-identity completeness only for thorough-tier grids (7 nodes per dW coordinate)"]
    return chk


if __name__ == '__main__':
    main(run)
