"""C18 - logqp returns the path-wise KL integrand and does not disturb the solution (engines C+D)."""
import itertools
import warnings

import torch
from torch import nn

import torchsde
from torchsde._core import misc

from .. import zoo
from ..core import Check, pmap, main
from ..explore import Out


class ExtBM(torchsde.BaseBrownian):
    """Brownian motion with one extra channel appended (diagonal noise + logqp needs d+1 channels): the first
    channels are exactly those of `base`."""

    def __init__(self, base, extra):
        super().__init__()
        self.base, self.extra = base, extra

    def __call__(self, ta, tb=None, return_U=False, return_A=False):
        a = self.base(ta, tb, return_U=return_U, return_A=return_A)
        b = self.extra(ta, tb, return_U=return_U, return_A=return_A)
        if torch.is_tensor(a):
            return torch.cat([a, b], dim=-1)
        outs = []
        for k, (x, y) in enumerate(zip(a, b)):
            if x.dim() == 3:  # Levy area (B, m, m) -> (B, m+1, m+1), block diagonal
                z = torch.zeros(x.shape[0], x.shape[1] + 1, x.shape[2] + 1, dtype=x.dtype)
                z[:, :-1, :-1] = x
                outs.append(z)
            else:
                outs.append(torch.cat([x, y], dim=-1))
        return tuple(outs)

    def __repr__(self):
        return "ExtBM()"

    dtype = property(lambda s: s.base.dtype)
    device = property(lambda s: s.base.device)
    shape = property(lambda s: (s.base.shape[0], s.base.shape[1] + 1))
    levy_area_approximation = property(lambda s: s.base.levy_area_approximation)


class Aug(nn.Module):
    """The augmented system written by the harness: state (y, l), dl = 1/2 |g^+ (f-h)|^2 dt."""

    def __init__(self, prog):
        super().__init__()
        self.prog = prog
        self.noise_type, self.sde_type = prog.noise_type, prog.sde_type

    def _u2(self, t, y):
        f, g, h = self.prog.f(t, y), self.prog.g(t, y), self.prog.h(t, y)
        if self.noise_type == 'diagonal':
            u = (f - h) / g
        else:
            u = torch.linalg.lstsq(g, (f - h).unsqueeze(-1)).solution.squeeze(-1)
        return 0.5 * (u ** 2).sum(dim=1, keepdim=True)

    def f(self, t, ya):
        y = ya[:, :-1]
        return torch.cat([self.prog.f(t, y), self._u2(t, y)], dim=1)

    def g(self, t, ya):
        y = ya[:, :-1]
        g = self.prog.g(t, y)
        if self.noise_type == 'diagonal':
            return torch.cat([g, torch.zeros(y.shape[0], 1, dtype=y.dtype)], dim=1)
        return torch.cat([g, torch.zeros(y.shape[0], 1, g.shape[-1], dtype=y.dtype)], dim=1)


class SignFlipped(nn.Module):
    """A diagonal program with the sign of every second diffusion entry flipped (negative entries are legitimate)."""

    def __init__(self, prog):
        super().__init__()
        self.prog = prog
        self.noise_type, self.sde_type, self.d, self.m = prog.noise_type, prog.sde_type, prog.d, prog.m
        self.sign = torch.tensor([(-1.0) ** k for k in range(prog.d)], dtype=torch.float64)

    def f(self, t, y):
        return self.prog.f(t, y)

    def g(self, t, y):
        return self.prog.g(t, y) * self.sign

    def h(self, t, y):
        return self.prog.h(t, y)


class ExactFamily(nn.Module):
    """f - h = g c for a constant vector c and a full-column-rank g."""

    def __init__(self, noise_type, sde_type, c):
        super().__init__()
        self.noise_type, self.sde_type = noise_type, sde_type
        self.c = torch.tensor(c, dtype=torch.float64)
        self.d = 3
        self.m = {'diagonal': 3, 'scalar': 1}.get(noise_type, 2)
        g = torch.Generator().manual_seed(9)
        self.G = torch.randn(3, self.m, dtype=torch.float64, generator=g) + 2 * torch.eye(3, self.m, dtype=torch.float64)

    def g(self, t, y):
        if self.noise_type == 'diagonal':
            # mixed signs: a diagonal diffusion entry may be negative
            return (0.8 + 0.2 * torch.sin(y)) * torch.tensor([1.0, -0.9, 1.2], dtype=y.dtype)
        base = self.G.unsqueeze(0).expand(y.shape[0], -1, -1)
        if self.noise_type == 'additive':
            return base * (1 + 0.1 * torch.as_tensor(t, dtype=y.dtype))
        return base * (1.5 + torch.sin(y).sum(dim=1)[:, None, None] * 0.2)

    def h(self, t, y):
        return -0.3 * y

    def f(self, t, y):
        g = self.g(t, y)
        c = self.c[:self.m]
        gc = g * c if self.noise_type == 'diagonal' else misc.batch_mvp(g, c.expand(y.shape[0], -1))
        return self.h(t, y) + gc


def run_logqp(prog, y0, ts, bm, method, dt, opts, logqp=True, **kw):
    with warnings.catch_warnings():
        warnings.simplefilter('ignore')
        return torchsde.sdeint(prog, y0, ts, bm=bm, method=method, dt=dt, options=dict(opts), logqp=logqp, **kw)


def unit_fn(unit):
    out = Out()
    cell = tuple(unit['cell'])
    st, nt, method, opts = cell
    levy = zoo.levy_for(method)
    lattice = [0., 0.25, 0.5, 0.75, 1.0]
    B = 2
    with torch.no_grad():
        plist = zoo.programs(nt, st, 'quick')[:unit.get('nprog', 1)]
        if nt == 'diagonal':
            plist = plist + [(plist[0][0] + '-signflipped', SignFlipped(plist[0][1]))]
        for pname, prog in plist:
            y0 = zoo.y0_for(prog, B)
            mm = prog.d if nt == 'diagonal' else prog.m
            for dt in (0.25, 0.125, 0.3):
                base = torchsde.BrownianInterval(0., 1., size=(B, mm), dtype=torch.float64, entropy=unit['entropy'],
                                                 levy_area_approximation=levy)
                if nt == 'diagonal':
                    extra = torchsde.BrownianInterval(0., 1., size=(B, 1), dtype=torch.float64,
                                                      entropy=unit['entropy'] + 1, levy_area_approximation=levy)
                    bm_l = ExtBM(base, extra)
                else:
                    bm_l = base
                full = None
                for r in range(0, 4):
                    for mid in itertools.combinations(lattice[1:-1], r):
                        tsl = [0.] + list(mid) + [1.0]
                        ts = torch.tensor(tsl, dtype=torch.float64)
                        label = dict(cell=zoo.cell_name(cell), program=pname, ts=tsl, dt=dt)

                        def bad(kind, detail):
                            out.violation(dict(kind=kind, cell=zoo.cell_name(cell)), f"{label}: {detail}",
                                          dict(engine='C-c18', entropy=unit['entropy'], **label))

                        ys, lq = run_logqp(prog, y0, ts, bm_l, method, dt, opts)
                        out.count('executions')
                        if tuple(lq.shape) != (len(tsl) - 1, B):
                            bad('shape', f"logqp has shape {tuple(lq.shape)}, expected {(len(tsl) - 1, B)}")
                            continue
                        if float(lq.min()) < -1e-12:
                            bad('negative', f"logqp increment {float(lq.min())} < 0")
                        plain = run_logqp(prog, y0, ts, base, method, dt, opts, logqp=False)
                        if not torch.equal(plain, ys):
                            bad('disturbs', f"state trajectory differs from the run without logqp by "
                                f"{float((plain - ys).abs().max())}")
                        aug = run_logqp(Aug(prog), torch.cat([y0, torch.zeros(B, 1, dtype=y0.dtype)], dim=1), ts,
                                        bm_l, method, dt, opts, logqp=False)
                        ref = aug[1:, :, -1] - aug[:-1, :, -1]
                        sc = max(1.0, float(ref.abs().max()))
                        if float((ref - lq).abs().max()) > 1e-10 * sc:
                            bad('integral', f"logqp differs from the independently accumulated integral of "
                                f"1/2|g^+(f-h)|^2 by {float((ref - lq).abs().max())}")
                        tot = lq.sum(0)
                        if full is None:
                            full = tot
                        elif float((tot - full).abs().max()) > 1e-11 * max(1.0, float(full.abs().max())):
                            bad('additivity', f"increments over ts={tsl} sum to {tot.tolist()}, over [0,1] the value is "
                                f"{full.tolist()}")
                        if float(lq.sum()) > 1e-9:  # non-trivial: a strictly positive KL integrand was accumulated
                            out.keys.add((zoo.cell_name(cell), pname, tuple(tsl), dt))
                        out.sample(label, limit=1)
        # exact family: f - h = g c
        for c in ([0.7, -0.4, 1.1], [0., 0., 0.], [2.0, 0.5, -1.0]):
            prog = ExactFamily(nt, st, c)
            y0 = 0.4 + 0.1 * torch.arange(B * 3, dtype=torch.float64).reshape(B, 3)
            base = torchsde.BrownianInterval(0., 1., size=(B, prog.m), dtype=torch.float64, entropy=unit['entropy'],
                                             levy_area_approximation=levy)
            bm_l = base
            if nt == 'diagonal':
                bm_l = ExtBM(base, torchsde.BrownianInterval(0., 1., size=(B, 1), dtype=torch.float64,
                                                             entropy=unit['entropy'] + 1, levy_area_approximation=levy))
            for tsl, dt in itertools.product(([0., 1.], [0., 0.3, 0.5, 1.0]), (0.125, 0.3)):
                ts = torch.tensor(tsl, dtype=torch.float64)
                ys, lq = run_logqp(prog, y0, ts, bm_l, method, dt, opts)
                out.count('executions')
                want = 0.5 * float((prog.c[:prog.m] ** 2).sum()) * (ts[1:] - ts[:-1])
                err = float((lq - want[:, None]).abs().max())
                if err > 1e-11:
                    out.violation(dict(kind='exact_family', cell=zoo.cell_name(cell)),
                                  f"f-h=g c with c={c}: logqp {lq[:, 0].tolist()} != 1/2|c|^2 dt = {want.tolist()} "
                                  f"(err {err})", dict(engine='C-c18', cell=zoo.cell_name(cell), c=c, ts=tsl, dt=dt,
                                                       entropy=unit['entropy']))
                elif any(c):
                    out.keys.add(('exact', zoo.cell_name(cell), tuple(c), tuple(tsl), dt))
    return out.pack()


def run(tier, seed):
    chk = Check('C18', tier, seed, 'exploration',
                rule="every supported cell x all subsets of {0.25,0.5,0.75} as interior output times x dt in "
                     "{1/4,1/8,0.3}: shape, non-negativity, additivity, equality with the harness-built augmented "
                     "system under the same solver and noise, state trajectory torch.equal to the run without logqp; "
                     "exact family f-h=g c for 3 constant vectors c (incl. c=0 and mixed-sign diagonal g); non-trivial = distinct (cell, program, ts, dt) with a strictly positive accumulated integrand, exact-family cases with c != 0")
    units = [dict(cell=list(c), entropy=180 + seed, nprog=1 if tier == 'quick' else 2) for c in zoo.cells()]
    for part in pmap(unit_fn, units):
        chk.merge(part)
    return chk


if __name__ == '__main__':
    main(run)
