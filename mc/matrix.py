"""Engine C - the configuration matrix of sdeint / sdeint_adjoint (C19), against the documentation table in zoo.py."""
import itertools
import sys
import warnings

import torch

import torchsde

from . import seams
from . import zoo
from .explore import Out

ALL_METHODS = zoo.METHODS + ('adjoint_reversible_heun', 'rk4_not_a_method')
CLASS_TO_METHOD = {'Euler': 'euler', 'MilsteinIto': 'milstein', 'MilsteinStratonovich': 'milstein', 'SRK': 'srk',
                   'EulerHeun': 'euler_heun', 'Heun': 'heun', 'Midpoint': 'midpoint', 'LogODEMidpoint': 'log_ode',
                   'ReversibleHeun': 'reversible_heun', 'AdjointReversibleHeun': 'adjoint_reversible_heun'}


class SpyBM(seams.RecordingBM):
    """Recording proxy that also notes the class of the object that queries it (the solver)."""

    def __init__(self, base):
        super().__init__(base)
        self.callers = set()

    def __call__(self, ta, tb=None, return_U=False, return_A=False):
        f = sys._getframe(1)
        hops = 0
        while f is not None and hops < 4:
            s = f.f_locals.get('self')
            if s is not None and type(s).__name__ in CLASS_TO_METHOD:
                self.callers.add(type(s).__name__)
                break
            f = f.f_back
            hops += 1
        return super().__call__(ta, tb, return_U=return_U, return_A=return_A)


def problem(st, nt, logqp=False, batch=2):
    d, m = (2, 2) if nt != 'scalar' else (2, 1)
    prog = zoo.Prog(nt, st, d, m, 0)
    y0 = zoo.y0_for(prog, batch)
    ch = d if nt == 'diagonal' else m
    if logqp and nt == 'diagonal':
        ch = d + 1
    return prog, y0, ch


def forward_cell(st, nt, method, levy, bm_given, adaptive, logqp, grad_free, entropy=5):
    """Returns (outcome, detail, queries, callers): outcome in 'ran' | exception class name."""
    prog, y0, ch = problem(st, nt, logqp)
    ts = torch.tensor([0., 0.25, 0.5], dtype=torch.float64)
    bm = None
    if bm_given:
        base = torchsde.BrownianInterval(t0=0., t1=0.5, size=(y0.shape[0], ch), dtype=torch.float64,
                                         entropy=entropy, levy_area_approximation=levy)
        bm = SpyBM(base)
    opts = {'grad_free': True} if grad_free else None
    try:
        with warnings.catch_warnings():
            warnings.simplefilter('ignore')
            out = torchsde.sdeint(prog, y0, ts, bm=bm, method=method, dt=0.25, adaptive=adaptive, logqp=logqp,
                                  options=opts, rtol=1e-2, atol=1e-2, dt_min=1e-2)
        ys = out[0] if logqp else out
        ok_shape = tuple(ys.shape) == (3,) + tuple(y0.shape)
        if logqp:
            ok_shape = ok_shape and tuple(out[1].shape) == (2, y0.shape[0])
        return ('ran' if ok_shape else 'bad_shape', str(tuple(ys.shape)), len(bm.log) if bm else None,
                sorted(bm.callers) if bm else None)
    except Exception as e:  # noqa
        return (type(e).__name__, str(e)[:160], len(bm.log) if bm else None, sorted(bm.callers) if bm else None)


def forward_expected(st, nt, method, levy, bm_given):
    if method not in zoo.METHODS:
        return False
    if not zoo.supported(st, nt, method):
        return False
    if bm_given and method in zoo.DOC_LEVY and levy not in zoo.DOC_LEVY[method]:
        return False
    return True


def forward_unit(unit):
    out = Out()
    st, nt = unit['st'], unit['nt']
    for method, levy, bm_given, adaptive, logqp in itertools.product(ALL_METHODS, zoo.LEVY, (True, False),
                                                                     (False, True), (False, True)):
        if not bm_given and levy != 'none':
            continue  # levy is a property of the supplied Brownian motion
        for grad_free in ((False, True) if method == 'milstein' else (False,)):
            outcome, detail, nq, callers = forward_cell(st, nt, method, levy, bm_given, adaptive, logqp, grad_free)
            exp = forward_expected(st, nt, method, levy, bm_given)
            out.count('executions')
            label = dict(sde_type=st, noise_type=nt, method=method, levy=levy, bm_given=bm_given, adaptive=adaptive,
                         logqp=logqp, grad_free=grad_free)
            sig = dict(kind='forward_cell', sde_type=st, noise_type=nt, method=method, levy=levy, bm_given=bm_given,
                       logqp=logqp, adaptive=adaptive)
            if exp:
                if outcome != 'ran':
                    out.violation(dict(sig, expected='runs', got=outcome),
                                  f"documented combination {label} did not run: {outcome}: {detail}",
                                  dict(engine='C-forward', **label))
                else:
                    out.keys.add(('fwd-ran', st, nt, method, levy, bm_given, adaptive, logqp, grad_free))
                    if callers is not None and [CLASS_TO_METHOD[c] for c in callers] != [method]:
                        out.violation(dict(sig, expected='solver', got=str(callers)),
                                      f"{label}: Brownian motion was queried by {callers}, not by the {method} solver",
                                      dict(engine='C-forward', **label))
            else:
                if outcome != 'ValueError':
                    out.violation(dict(sig, expected='ValueError', got=outcome),
                                  f"unsupported combination {label}: expected ValueError up-front, got {outcome}: "
                                  f"{detail}", dict(engine='C-forward', **label))
                elif nq:
                    out.violation(dict(sig, expected='no_queries', got=nq),
                                  f"unsupported combination {label}: ValueError only after {nq} Brownian queries",
                                  dict(engine='C-forward', **label))
                else:
                    out.keys.add(('fwd-refused', st, nt, method, levy, bm_given, adaptive, logqp, grad_free))
    out.sample(dict(forward_matrix=dict(sde_type=st, noise_type=nt), cells=out.counters.get('executions')), limit=1)
    return out.pack()


# ---- adjoint -----------------------------------------------------------------------------------------
def adjoint_expected(st, nt, method, adjoint_method):
    """Which adjoint methods integrate the adjoint SDE (noise: additive -> general; only drift and
    diffusion-vector products are available; diagonal also has the Milstein term)."""
    adj_nt = 'general' if nt == 'additive' else nt
    if adjoint_method == 'adjoint_reversible_heun':
        return st == 'stratonovich' and method == 'reversible_heun'
    if adjoint_method not in zoo.METHODS:
        return False
    if adjoint_method in ('srk', 'log_ode', 'reversible_heun'):
        return False  # need direct access to the diffusion matrix
    if not zoo.supported(st, adj_nt, adjoint_method):
        return False
    if adjoint_method == 'milstein' and adj_nt != 'diagonal':
        return False
    return True


def adjoint_cell(st, nt, method, adjoint_method, adjoint_opts=None, entropy=5):
    prog, y0, ch = problem(st, nt)
    y0 = y0.clone().requires_grad_(True)
    ts = torch.tensor([0., 0.25, 0.5], dtype=torch.float64)
    base = torchsde.BrownianInterval(t0=0., t1=0.5, size=(y0.shape[0], ch), dtype=torch.float64, entropy=entropy,
                                     levy_area_approximation=zoo.levy_for(method))
    bm = SpyBM(base)
    for p in prog.parameters():
        p.grad = None
    with warnings.catch_warnings():
        warnings.simplefilter('ignore')
        try:
            ys = torchsde.sdeint_adjoint(prog, y0, ts, bm=bm, method=method, adjoint_method=adjoint_method, dt=0.125,
                                         adjoint_options=adjoint_opts)
        except Exception as e:  # noqa
            return ('forward_' + type(e).__name__, str(e)[:160], None, bm)
        nfwd = len(bm.log)
        try:
            ys[-1].sum().backward()
        except Exception as e:  # noqa
            got = [n for n, p in prog.named_parameters() if p.grad is not None]
            if y0.grad is not None:
                got.append('y0')
            return ('backward_' + type(e).__name__, str(e)[:160], got, bm)
    grads = [y0.grad] + [p.grad for p in prog.parameters() if p.requires_grad]
    finite = all(g is None or bool(torch.isfinite(g).all()) for g in grads)
    return ('ran' if finite else 'nonfinite', f"{len(bm.log) - nfwd} reverse queries", None, bm)


def adjoint_unit(unit):
    out = Out()
    st, nt = unit['st'], unit['nt']
    for method in zoo.METHODS:
        if not zoo.supported(st, nt, method):
            continue
        for am in ALL_METHODS + (None,):
            for adj_gf in ((False, True) if am == 'milstein' else (False,)):
                outcome, detail, got, bm = adjoint_cell(st, nt, method, am,
                                                        {'grad_free': True} if adj_gf else None)
                eff = am
                if am is None:
                    eff = 'adjoint_reversible_heun' if method == 'reversible_heun' else zoo.DOC_DEFAULT_ADJOINT[(st, nt)]
                exp = adjoint_expected(st, nt, method, eff) and not adj_gf
                out.count('executions')
                label = dict(sde_type=st, noise_type=nt, method=method, adjoint_method=am, adjoint_grad_free=adj_gf)
                sig = dict(kind='adjoint_cell', sde_type=st, noise_type=nt, method=method, adjoint_method=str(am))
                if exp:
                    if outcome != 'ran':
                        out.violation(dict(sig, expected='runs', got=outcome),
                                      f"admissible adjoint combination {label} failed: {outcome}: {detail}",
                                      dict(engine='C-adjoint', **label))
                    else:
                        out.keys.add(('adj-ran', st, nt, method, am, adj_gf))
                        if am is None:
                            used = sorted(CLASS_TO_METHOD[c] for c in bm.callers)
                            want = sorted({method, eff})
                            if used != want:
                                out.violation(dict(sig, expected='default', got=str(used)),
                                              f"{label}: solvers that queried the Brownian motion were {used}, the "
                                              f"documented defaults are {want}", dict(engine='C-adjoint', **label))
                else:
                    if outcome == 'ran' or outcome == 'nonfinite':
                        out.violation(dict(sig, expected='refused', got=outcome),
                                      f"inadmissible adjoint combination {label} was integrated silently ({detail})",
                                      dict(engine='C-adjoint', **label))
                    elif got:
                        out.violation(dict(sig, expected='no_gradients', got=str(got)),
                                      f"{label} raised {outcome} but {got} received gradients",
                                      dict(engine='C-adjoint', **label))
                    else:
                        out.keys.add(('adj-refused', st, nt, method, am, adj_gf, outcome))
    out.sample(dict(adjoint_matrix=dict(sde_type=st, noise_type=nt), cells=out.counters.get('executions')), limit=1)
    return out.pack()
