"""Core of the bounded-exhaustive exploration framework.

* ``Check``      - collects counters, samples, violations; matches violations against
                   /verif/known_findings.json; writes the evidence file; decides the exit code.
* ``pmap``       - long-lived worker pool (fork), work units are picklable tuples.
* ``canon``/``digest`` helpers.

Every check module exposes ``run(tier, seed) -> Check``.
"""
import hashlib
import json
import multiprocessing as mp
import os
import subprocess
import sys
import time
import traceback

VERIF = os.path.dirname(os.path.dirname(os.path.abspath(__file__)))
EVIDENCE_DIR = os.path.join(VERIF, 'evidence')
REPLAY_DIR = os.path.join(VERIF, 'replays')
FINDINGS_FILE = os.path.join(VERIF, 'known_findings.json')
NPROC = int(os.environ.get('VERIF_NPROC', '16'))


class HarnessError(Exception):
    """The machinery itself is broken (determinism divergence, alphabet shortfall).  Never a VIOLATION."""


def digest(obj) -> str:
    return hashlib.sha1(json.dumps(obj, sort_keys=True, default=str).encode()).hexdigest()[:12]


def _sig_match(pattern: dict, sig: dict) -> bool:
    """A finding's signature is a subset pattern: every key must be present and equal (lists: membership)."""
    for k, v in pattern.items():
        if k not in sig:
            return False
        sv = sig[k]
        if isinstance(v, dict) and 'any_of' in v:
            if sv not in v['any_of']:
                return False
        elif isinstance(v, dict) and 'le' in v:
            if not (isinstance(sv, (int, float)) and sv <= v['le']):
                return False
        elif isinstance(v, dict) and 'ge' in v:
            if not (isinstance(sv, (int, float)) and sv >= v['ge']):
                return False
        elif sv != v:
            return False
    return True


def load_findings():
    if not os.path.exists(FINDINGS_FILE):
        return []
    with open(FINDINGS_FILE) as f:
        data = json.load(f)
    return data.get('findings', [])


class Check:
    def __init__(self, pid, tier, seed, level, rule=''):
        self.pid = pid
        self.tier = tier
        self.seed = seed
        self.level = level
        self.rule = rule
        self.t0 = time.time()
        self.counters = {}
        self.samples = []
        self.violations = []  # list of dict(sig=..., detail=..., replay=...)
        self.assumptions = []
        self.caps = []
        self.extra = {}
        self.nontrivial_keys = set()
        self.exhaustive = True
        self._slow = []

    # ---- accumulation -------------------------------------------------------------------------
    def count(self, key, n=1):
        self.counters[key] = self.counters.get(key, 0) + n

    def nontrivial(self, key):
        """Register one distinct non-trivial case (hashable key)."""
        self.nontrivial_keys.add(key)

    def sample(self, s, limit=6):
        if len(self.samples) < limit:
            self.samples.append(s)

    def cap(self, text):
        self.caps.append(text)
        self.exhaustive = False

    def violation(self, sig: dict, detail: str, replay: dict):
        sig = dict(sig)
        sig.setdefault('property', self.pid)
        self.violations.append(dict(sig=sig, detail=detail, replay=replay))

    def merge(self, part: dict):
        """Merge a worker result: dict(counters=..., samples=[...], violations=[...], nontrivial=[...])."""
        for k, v in part.get('counters', {}).items():
            self.count(k, v)
        for s in part.get('samples', []):
            self.sample(s)
        for v in part.get('violations', []):
            self.violations.append(v)
        for k in part.get('nontrivial', []):
            self.nontrivial_keys.add(k if not isinstance(k, list) else tuple(k))
        for c in part.get('caps', []):
            self.cap(c)
        for k, v in part.get('max', {}).items():
            self.extra[k] = max(self.extra.get(k, v), v)
        if '_wall' in part:
            self._slow.append((round(part['_wall'], 1), part.get('_label')))
            self._slow = sorted(self._slow, reverse=True)[:5]

    def expect(self, key, minimum):
        """Vacuity guard for counters that depend only on the harness's own alphabets: a shortfall is a broken
        check (HarnessError), never a VIOLATION."""
        if self.counters.get(key, 0) < minimum:
            raise HarnessError(f"{self.pid}: vacuity guard: counter {key}={self.counters.get(key, 0)} < {minimum}")

    # ---- finish --------------------------------------------------------------------------------
    def finish(self) -> int:
        findings = [f for f in load_findings() if f.get('property') == self.pid]
        known_hit = {}
        new = []
        for v in self.violations:
            hit = None
            for f in findings:
                if _sig_match(f['signature'], v['sig']):
                    hit = f
                    break
            if hit is None:
                new.append(v)
            else:
                known_hit.setdefault(hit['id'], [hit, 0])
                known_hit[hit['id']][1] += 1
        for fid, (f, n) in sorted(known_hit.items()):
            print(f"KNOWN-FINDING: property={self.pid} {fid}: {f['what']} (matched {n} case(s) this run)")
        # de-duplicate new violations by signature, keep the first (simplest-first enumeration order)
        seen = {}
        for v in new:
            k = digest(v['sig'])
            if k not in seen:
                seen[k] = v
        os.makedirs(REPLAY_DIR, exist_ok=True)
        for k, v in list(seen.items())[:20]:
            path = os.path.join(REPLAY_DIR, f"{self.pid}-{k}.json")
            with open(path, 'w') as f:
                json.dump(dict(property=self.pid, sig=v['sig'], detail=v['detail'], replay=v['replay']), f, indent=1,
                          default=str)
            print(f"VIOLATION property={self.pid} replay={path}")
            print(f"  sig={json.dumps(v['sig'], default=str)}")
            print(f"  detail={v['detail'][:600]}")
        self._write_evidence(len(seen), len(self.violations) - len(new))
        return 1 if seen else 0

    def _write_evidence(self, n_new, n_known):
        cov = dict(self.counters)
        cov.update(self.extra)
        cov['samples'] = self.samples if self.samples else ['<none recorded>']
        cov['rule'] = self.rule
        cov['exhaustive'] = bool(self.exhaustive)
        cov['caps_hit'] = self.caps
        cov['distinct_nontrivial'] = len(self.nontrivial_keys) if self.nontrivial_keys else cov.get(
            'distinct_nontrivial', 0)
        cov.setdefault('evaluations', cov.get('executions', 0))
        if self.level == 'model_checking':
            cov.setdefault('states', len(self.nontrivial_keys))
            cov.setdefault('transitions', cov.get('transitions', 0))
            cov.setdefault('traces_validated_against_impl', cov.get('executions', 0))
        cov['known_finding_cases'] = n_known
        cov['slowest_units'] = self._slow
        ev = dict(property_id=self.pid, tier=self.tier, seed=int(self.seed), level=self.level, coverage=cov,
                  assumptions=self.assumptions, wall_s=round(time.time() - self.t0, 2), violations=int(n_new))
        os.makedirs(EVIDENCE_DIR, exist_ok=True)
        path = os.path.join(EVIDENCE_DIR, f"{self.pid}.json")
        with open(path, 'w') as f:
            json.dump(ev, f, indent=1, default=str)
        validate_evidence(path)
        c = {k: v for k, v in cov.items() if isinstance(v, (int, float, bool)) and not isinstance(v, str)}
        print(f"[{self.pid}/{self.tier}] seed={self.seed} wall={ev['wall_s']}s coverage={json.dumps(c)}")


def validate_evidence(path):
    """Validate with jsonschema from the tooling venv when present (python3-vt); otherwise a structural check."""
    schema = os.path.join(VERIF, 'schemas', 'EVIDENCE.schema.json')
    code = ("import json,sys,jsonschema;"
            "jsonschema.validate(json.load(open(sys.argv[1])),json.load(open(sys.argv[2])))")
    try:
        r = subprocess.run(['python3-vt', '-W', 'ignore', '-c', code, path, schema], capture_output=True, text=True,
                           timeout=60)
        if r.returncode != 0:
            raise HarnessError(f"evidence file {path} does not validate: {r.stderr[-800:]}")
    except FileNotFoundError:
        ev = json.load(open(path))
        for k in ('property_id', 'tier', 'seed', 'level', 'coverage', 'wall_s'):
            if k not in ev:
                raise HarnessError(f"evidence file lacks {k}")


# ---- parallel map ---------------------------------------------------------------------------------
def _worker_init():
    import torch
    torch.set_num_threads(1)
    import warnings
    warnings.simplefilter('ignore')


def _call(args):
    fn, unit = args
    try:
        t = time.time()
        r = fn(unit)
        if isinstance(r, dict):
            r['_wall'] = time.time() - t
            r['_label'] = unit_label(unit)
        return r
    except HarnessError:
        raise
    except BaseException as e:  # noqa
        raise HarnessError(f"worker crashed on unit {str(unit)[:300]}: {type(e).__name__}: {e}\n"
                           f"{traceback.format_exc()[-3000:]}")


def unit_label(unit):
    if isinstance(unit, dict):
        d = {k: v for k, v in unit.items() if k in ('kind', 'N', 'depth', 'bm', 'dtype', 'mode', 'name', 'cell')}
        if 'cfg' in unit and isinstance(unit['cfg'], dict):
            d['cfg'] = '|'.join(str(v) for v in unit['cfg'].values())
        if 'prefix' in unit:
            d['prefix'] = unit['prefix']
        if 'devsets' in unit:
            d['ndevsets'] = len(unit['devsets'])
        return str(d)[:300]
    return str(unit)[:200]


def pmap(fn, units, nproc=None, chunksize=1):
    """Run fn(unit) for all units on a pool of long-lived workers; yields results in completion order."""
    units = list(units)
    nproc = min(nproc or NPROC, max(1, len(units)))
    if nproc == 1 or os.environ.get('VERIF_SERIAL'):
        _worker_init()
        for u in units:
            yield _call((fn, u))
        return
    ctx = mp.get_context('fork')
    with ctx.Pool(nproc, initializer=_worker_init) as pool:
        for r in pool.imap_unordered(_call, [(fn, u) for u in units], chunksize=chunksize):
            yield r


def main(run_fn):
    """Entry point used by ./run: run_fn(tier, seed) -> Check."""
    tier = sys.argv[1] if len(sys.argv) > 1 else os.environ.get('VERIF_TIER', 'quick')
    seed = int(os.environ.get('VERIF_SEED', '0'))
    chk = run_fn(tier, seed)
    sys.exit(chk.finish())
