"""Search strategies of engine A (work units executed in pool workers).

* ``bfs_unit``        full product of a micro alphabet to depth k below a prefix (breadth-first, de-duplicated)
* ``deviation_unit``  solver-shaped base schedule with every placement of <= D deviations (stateless enumeration)

Both call back into a *visitor* (module-level function, named by dotted path so units stay picklable):
    visitor(rp: Replay, history, answers, out: Out, opts) -> None
which evaluates the state invariants of one property and records violations into ``out``.
"""
import importlib
import itertools
import math

import torch

from . import bm_machine as bmm
from .core import digest, HarnessError


class Out:
    def __init__(self):
        self.counters = {}
        self.samples = []
        self.violations = []
        self.keys = set()
        self.max = {}

    def count(self, k, n=1):
        self.counters[k] = self.counters.get(k, 0) + n

    def mx(self, k, v):
        self.max[k] = max(self.max.get(k, v), v)

    def sample(self, s, limit=2):
        if len(self.samples) < limit:
            self.samples.append(s)

    def violation(self, sig, detail, replay):
        self.violations.append(dict(sig=sig, detail=detail, replay=replay))

    def pack(self):
        return dict(counters=self.counters, samples=self.samples, violations=self.violations[:50],
                    nontrivial=list(self.keys), max=self.max)


def _resolve(path):
    mod, name = path.rsplit('.', 1)
    return getattr(importlib.import_module(mod), name)


def replay_violations(rp, cfg, entropy, mode, history, out, pid_filter=None, extra=None):
    """Turn the transition problems recorded by Replay into violations (kinds filtered per property)."""
    for kind, d in rp.problems:
        if pid_filter is not None and kind not in pid_filter:
            continue
        sig = dict(kind=kind, exc=d.get('exc'), at=d.get('at'), wrapper=cfg['wrapper'], levy=cfg['levy'],
                   cache_size=cfg['cache_size'], dt=cfg['dt'], tol=cfg['tol'], halfway=cfg['halfway'],
                   ndim=len(cfg['size']))
        q = d.get('q')
        qlen = (q[2] - q[1]) if q else None
        sig['tiny_scale'] = bool((qlen is not None and 0 < qlen < 1e-100) or
                                 (rp.min_len is not None and rp.min_len < 1e-100))
        if extra:
            sig.update(extra)
        out.violation(sig, f"{kind}: {d}", dict(cfg=cfg, entropy=entropy, mode=mode, history=list(history),
                                                 problem=d))


def bfs_unit(unit):
    """unit = dict(cfg, entropy, mode, K, prefix, alphabet, depth, visitor, opts, kinds, keymode)"""
    cfg = unit['cfg']
    entropy = unit['entropy']
    mode = unit.get('mode', 'real')
    visitor = _resolve(unit['visitor']) if unit.get('visitor') else None
    opts = unit.get('opts', {})
    kinds = unit.get('kinds')
    alphabet = unit['alphabet']
    depth = unit['depth']
    out = Out()
    seen = set()
    frontier = [tuple(map(tuple, unit.get('prefix', ())))]
    d0 = len(frontier[0])
    for d in range(d0, depth + 1):
        nxt = []
        for h in frontier:
            with bmm.Replay(cfg, entropy, mode=mode, K=unit.get('K'), given=unit.get('given')) as rp:
                ok = rp.construct()
                answers = rp.run(h) if ok else []
                out.count('transitions', max(1, len(answers)))
                out.count('executions')
                out.mx('max_nodes_per_call', rp.max_nodes_per_call)
                out.mx('max_frame_depth', rp.max_depth)
                out.mx('max_cache_entries', rp.max_cache)
                replay_violations(rp, cfg, entropy, mode, h, out, kinds)
                fatal = any(k in ('budget', 'exception') for k, _ in rp.problems)
                if fatal:
                    out.count('fatal')
                    continue
                key, nnodes, ncache = bmm.canon_key(rp.b.top)
                if key is None:
                    key = digest(['hist', h])
                if unit.get('keymode') == 'answers':
                    akey = sorted((q[0], bmm.hexf(q[1]), bmm.hexf(q[2]),
                                   digest([None if x is None else x.numpy().tobytes().hex() for x in a]))
                                  for q, a in answers)
                    key = digest([key, akey])
                full = digest([bmm.cfg_key(cfg), key])
                if full in seen:
                    out.count('duplicates')
                    continue
                seen.add(full)
                out.keys.add(full)
                out.mx('max_tree_nodes', nnodes)
                if visitor is not None:
                    visitor(rp, h, answers, out, opts)
                    replay_violations(rp, cfg, entropy, mode, list(h) + ['<visitor probes>'], out, kinds)
                    rp.problems.clear()
                out.sample(dict(cfg=bmm.cfg_key(cfg), history=[list(o) for o in h], tree_nodes=nnodes,
                                cache_entries=ncache), limit=1)
            if d < depth:
                nxt.extend(h + (tuple(op),) for op in alphabet)
        frontier = nxt
    return out.pack()


# ---------------------------------------------------------------------------------------------------
# solver-shaped histories with bounded deviations
# ---------------------------------------------------------------------------------------------------
def schedule(N, T=1.0, t0=0.0):
    """Step end points the fixed-step loop produces: accumulate h, clip the last step to T."""
    h = (T - t0) / N
    ts = [t0]
    while ts[-1] < T:
        ts.append(min(ts[-1] + h, T))
        if len(ts) > 4 * N + 10:
            raise HarnessError("schedule runaway")
    return ts, h


def base_history(N, via_back='r', t0=0.0, t1=1.0):
    ts, h = schedule(N, T=t1, t0=t0)
    fwd = [['qd', a, b] for a, b in zip(ts[:-1], ts[1:])]
    bwd = [['qr' if via_back == 'r' else 'qd', a, b] for a, b in reversed(list(zip(ts[:-1], ts[1:])))]
    return ts, h, fwd, bwd


DEV_MENU = ('requery0', 'requery_prev', 'coarse', 'trial', 'zero', 'offgrid', 'ulp_short', 'subtol')


def deviation_ops(name, i, ts, h, tol):
    """Deviation `name` placed before flat position i (position semantic: step index on the forward grid)."""
    n = len(ts) - 1
    j = min(max(i, 0), n - 1)
    t = ts[j]
    T = ts[-1]
    if name == 'requery0':
        return [['qd', ts[0], ts[1]]]
    if name == 'requery_prev':
        k = max(j - 1, 0)
        return [['qd', ts[k], ts[k + 1]]]
    if name == 'coarse':
        return [['qd', ts[max(j - 3, 0)], ts[min(j + 2, n)]]]
    if name == 'trial':
        t1 = min(t + h, T)
        m = 0.5 * (t + t1)
        q = 0.5 * (t + m)
        return [['qd', t, t1], ['qd', t, m], ['qd', m, t1], ['qd', t, m], ['qd', t, q], ['qd', q, m]]
    if name == 'zero':
        return [['qd', t, t]]
    if name == 'offgrid':
        a = min(t + h / 3, T)
        b = min(a + h, T)
        return [['qd', a, b]] if b > a else [['qd', a, a]]
    if name == 'ulp_short':
        t1 = min(t + h, T)
        return [['qd', t, math.nextafter(t1, -math.inf)], ['qd', math.nextafter(t1, -math.inf), t1]]
    if name == 'subtol':
        eps = tol / 3 if tol else 1e-13
        return [['qd', t, min(t + eps, T)]]
    raise HarnessError(name)


def deviation_positions(N):
    cand = [0, 1, 99, 100, 101, N // 2, N - 1, N, 2 * N]
    out = []
    for c in cand:
        if 0 <= c <= 2 * N and c not in out:
            out.append(c)
    return out


def build_deviated(N, devs, tol=0., via_back='r', t0=0.0, t1=1.0):
    """devs: list of (position, name).  Positions index the flat base list (0..2N); 2N = after everything."""
    ts, h, fwd, bwd = base_history(N, via_back, t0, t1)
    flat = fwd + bwd
    ins = {}
    for pos, name in devs:
        # step index on the forward grid that the solver is at when the deviation happens
        step = pos if pos <= N else 2 * N - pos
        ins.setdefault(pos, []).extend(deviation_ops(name, step, ts, h, tol))
    hist = []
    for i in range(len(flat) + 1):
        hist.extend(ins.get(i, []))
        if i < len(flat):
            hist.append(flat[i])
    return hist


def deviation_unit(unit):
    """unit = dict(cfg, entropy, mode, N, devsets=[[(pos,name),...],...], visitor, opts, kinds)"""
    cfg = unit['cfg']
    entropy = unit['entropy']
    mode = unit.get('mode', 'real')
    visitor = _resolve(unit['visitor']) if unit.get('visitor') else None
    opts = unit.get('opts', {})
    kinds = unit.get('kinds')
    out = Out()
    for devs in unit['devsets']:
        hist = build_deviated(unit['N'], devs, cfg['tol'], unit.get('via_back', 'r'), cfg['t0'], cfg['t1'])
        label = dict(N=unit['N'], devs=[list(d) for d in devs])
        with bmm.Replay(cfg, entropy, mode=mode, K=unit.get('K'), given=unit.get('given'),
                        budget=unit.get('budget', 300000)) as rp:
            ok = rp.construct()
            answers = rp.run(hist) if ok else []
            out.count('transitions', max(1, len(answers)))
            out.count('executions')
            out.count(f'executions_{len(devs)}dev')
            out.mx('max_nodes_per_call', rp.max_nodes_per_call)
            out.mx('max_frame_depth', rp.max_depth)
            out.mx('max_cache_entries', rp.max_cache)
            replay_violations(rp, cfg, entropy, mode, hist if len(hist) < 40 else [label], out, kinds,
                              extra=dict(N=unit['N'], ndev=len(devs), devnames=sorted(n for _, n in devs)))
            fatal = any(k in ('budget', 'exception') for k, _ in rp.problems)
            if fatal:
                out.count('fatal')
                continue
            key, nnodes, ncache = bmm.canon_key(rp.b.top)
            if key is None:
                key = digest(['hist', label])
            out.keys.add(digest([bmm.cfg_key(cfg), key]))
            out.mx('max_tree_nodes', nnodes)
            if visitor is not None:
                visitor(rp, [label], answers, out, opts)
                replay_violations(rp, cfg, entropy, mode, [label, '<visitor probes>'], out, kinds,
                                  extra=dict(N=unit['N'], ndev=len(devs), devnames=sorted(n for _, n in devs)))
            out.sample(dict(cfg=bmm.cfg_key(cfg), solver_shaped=label, queries=len(hist), tree_nodes=nnodes,
                            cache_entries=ncache), limit=1)
    return out.pack()


def all_devsets(N, D, menu=DEV_MENU):
    """Every placement of <= D deviations (0 first, then 1, then 2: simplest counter-example first)."""
    pos = deviation_positions(N)
    singles = [(p, m) for p in pos for m in menu]
    sets = [[]]
    if D >= 1:
        sets += [[s] for s in singles]
    if D >= 2:
        sets += [[a, b] for a, b in itertools.combinations_with_replacement(singles, 2)]
    return sets


def chunks(seq, n):
    seq = list(seq)
    k = max(1, math.ceil(len(seq) / n))
    return [seq[i:i + k] for i in range(0, len(seq), k)]


def run_unit(unit):
    if unit['kind'] == 'bfs':
        return bfs_unit(unit)
    if unit['kind'] == 'dev':
        return deviation_unit(unit)
    raise HarnessError(unit['kind'])


def bfs_units(cfg, entropy, alphabet, depth, split=False, **kw):
    """Work units for the full product to `depth`; split=True gives one unit per first operation."""
    base = dict(kind='bfs', cfg=cfg, entropy=entropy, alphabet=alphabet, **kw)
    if not split or depth < 2:
        return [dict(base, prefix=[], depth=depth)]
    return [dict(base, prefix=[], depth=0)] + [dict(base, prefix=[op], depth=depth) for op in alphabet]


def dev_units(cfg, entropy, N, D, nchunks=8, menu=DEV_MENU, **kw):
    sets = all_devsets(N, D, menu)
    return [dict(kind='dev', cfg=cfg, entropy=entropy, N=N, devsets=c, **kw) for c in chunks(sets, nchunks)]


def selfcheck_determinism(entropy=1):
    """Determinism protocol (DESIGN section 1): one recorded exploration is run twice in this process and must give
    identical observations (state keys, counters, answers digests) before any result of the run is trusted."""
    cfg = bmm.cfg_make(size=(2, 2), levy='foster', cache_size=2)
    unit = dict(kind='bfs', cfg=cfg, entropy=entropy, alphabet=bmm.grid_ops(bmm.G4[:4]), depth=2, prefix=[],
                keymode='answers')
    a = bfs_unit(dict(unit))
    b = bfs_unit(dict(unit))
    if sorted(a['nontrivial']) != sorted(b['nontrivial']) or a['counters'] != b['counters']:
        raise HarnessError("determinism self-check failed: two replays of the same exploration differ")
    u2 = dict(kind='dev', cfg=cfg, entropy=entropy, N=8, devsets=all_devsets(8, 1)[:12])
    a = deviation_unit(dict(u2))
    b = deviation_unit(dict(u2))
    if sorted(a['nontrivial']) != sorted(b['nontrivial']) or a['counters'] != b['counters']:
        raise HarnessError("determinism self-check failed (solver-shaped histories)")
    return len(a['nontrivial'])
