"""Replays a recorded counter-example without the explorer:  ./replay /verif/replays/Cxx-<hash>.json

Engine A files hold (configuration, entropy, noise mode, operation history, probe queries): the history is executed on
a fresh object through the public API and the violated relation is re-evaluated and printed.  Other engines record the
exact call (cell, ts, dt, scripted error sequence, matrix cell, ...), which is re-executed through the same unit
function restricted to that single case.
"""
import json
import sys

import torch

torch.set_num_threads(1)


def replay_A(rep, sig):
    from . import bm_machine as bmm, bm_invariants as inv, explore as ex
    cfg = rep['cfg']
    cfg['size'] = tuple(cfg['size'])
    hist = rep['history']
    hist = [h for h in hist if not (isinstance(h, str))]
    if hist and isinstance(hist[0], dict):  # solver-shaped label
        lab = hist[0]
        hist = ex.build_deviated(lab['N'], [tuple(d) for d in lab['devs']], cfg['tol'], 'r', cfg['t0'], cfg['t1'])
    given = None
    if cfg.get('given', 'none') != 'none' and rep.get('mode') == 'labelled':
        from .checks.c03 import given_tensors
        given = given_tensors(cfg)
    out = ex.Out()
    with bmm.Replay(cfg, rep['entropy'], mode=rep.get('mode', 'real'), K=rep.get('K'), given=given) as rp:
        ok = rp.construct()
        print("constructed:", ok, bmm.cfg_key(cfg))
        answers = rp.run([tuple(h) for h in hist]) if ok else []
        for (q, a) in answers[-6:]:
            print("  query", q, "->", None if a is None else [None if x is None else x.flatten()[:4].tolist() for x in a])
        print("transition problems:", rp.problems)
        kind = sig.get('kind')
        grid = sorted(set(x for p in (rep.get('probes') or []) for x in p[:2])) or bmm.G4
        if kind in ('chen_W', 'chen_U', 'pieces', 'zero_shape', 'zero_value', 'antisym'):
            inv.chen_visitor(rp, hist, answers, out, dict(grid=grid))
        elif kind in ('covariance', 'noise_shape', 'given_W', 'given_H'):
            (inv.given_visitor if given else inv.law_visitor)(rp, hist, answers, out, dict(grid=grid))
        elif kind == 'levy_variance':
            inv.levy_identity_visitor(rp, hist, answers, out, dict(grid=grid))
        elif kind == 'repeat':
            from .checks import c05
            c05.visitor(rp, hist, answers, out, {})
            print("problems after re-issue:", rp.problems[-3:])
    for v in out.violations[:3]:
        print("VIOLATED:", v['detail'])
    return 1 if (out.violations or rp.problems) else 0


def main():
    path = sys.argv[1]
    d = json.load(open(path))
    rep, sig = d['replay'], d['sig']
    print("property:", d['property'], "\nsignature:", json.dumps(sig), "\nrecorded detail:", d['detail'][:400])
    eng = rep.get('engine', 'A')
    if eng == 'A' or 'cfg' in rep and 'history' in rep:
        sys.exit(replay_A(rep, sig))
    if eng == 'B-c14':
        from . import loop_machine as lm, zoo
        from .explore import Out
        cell = next(c for c in zoo.cells() if zoo.cell_name(c) == rep['cell'])
        run = lm.adaptive_run(cell, rep['ts'], rep['dt'], rep['dt_min'], rep['errors'], entropy=rep['entropy'])
        bad = lm.check_adaptive_run(cell, rep['ts'], rep['dt'], rep['dt_min'], run, Out(), {})
        print("trials:", [(a, b) for a, b, _, _ in run['log'][::3]])
        print("VIOLATED:" if bad else "holds:", bad)
        sys.exit(1 if bad else 0)
    if eng in ('C-forward', 'C-adjoint'):
        from . import matrix
        if eng == 'C-forward':
            r = matrix.forward_cell(rep['sde_type'], rep['noise_type'], rep['method'], rep['levy'], rep['bm_given'],
                                    rep['adaptive'], rep['logqp'], rep['grad_free'])
        else:
            r = matrix.adjoint_cell(rep['sde_type'], rep['noise_type'], rep['method'], rep['adjoint_method'],
                                    {'grad_free': True} if rep.get('adjoint_grad_free') else None)[:3]
        print("outcome now:", r)
        sys.exit(0)
    print("engine", eng, ": the recorded inputs above identify the single case; re-run it with",
          f"`./run {d['property']} quick` (the case is part of the quick enumeration) or call the unit function "
          f"named in mc/checks/{d['property'].lower()}.py with these inputs.")
    print(json.dumps(rep, indent=1, default=str)[:2000])


if __name__ == '__main__':
    main()
