"""Engine B - the stepping-loop machine: stateless exploration of BaseSDESolver.integrate under scripted
environments (output-time pattern, dt, restart points, and - adaptive - the error estimate at every trial).
"""
import itertools
import math

import torch

import torchsde

from . import seams
from . import zoo
from .core import HarnessError, digest
from .explore import Out


def _eq(a, b):
    return a.shape == b.shape and a.dtype == b.dtype and torch.equal(a, b)


def cell_setup(cell, dtype=torch.float64, entropy=11, batch=2, variant=0, t0=0., t1=1., levy=None):
    st, nt, method, opts = cell
    d, m = (2, 2) if nt != 'scalar' else (2, 1)
    prog = zoo.Prog(nt, st, d, m, variant, dtype=dtype)
    if dtype != torch.float64:
        prog = prog.to(dtype)
    y0 = zoo.y0_for(prog, batch).to(dtype)
    bm = zoo.make_bm(prog, batch, levy or zoo.levy_for(method), entropy, t0=t0, t1=t1, dtype=dtype)
    return prog, y0, bm


def grid_times(t_first, t_last, dt, dtype):
    """The grid ts[0] + k dt accumulated exactly as a fixed-step loop does, last step clipped to ts[-1]."""
    cur = torch.tensor(t_first, dtype=dtype)
    last = torch.tensor(t_last, dtype=dtype)
    out = [cur]
    while cur < last:
        cur = torch.minimum(cur + dt, last)
        out.append(cur)
        if len(out) > 10000:
            raise HarnessError("grid runaway")
    return out


def reference_trajectory(prog, y0, bm, method, opts, t_first, t_last, dt, dtype):
    """Grid states obtained by calling the solver's own step on the dt-grid (written from the property)."""
    solver = zoo.make_solver(prog, bm, method, dt, opts)
    ts = grid_times(t_first, t_last, dt, dtype)
    extra = solver.init_extra_solver_state(ts[0], y0)
    ys = [y0]
    y = y0
    for a, b in zip(ts[:-1], ts[1:]):
        y, extra = solver.step(a, b, y, extra)
        ys.append(y)
    return ts, ys, extra


# ---------------------------------------------------------------------------------------------------
# C12
# ---------------------------------------------------------------------------------------------------
def c12_unit(unit):
    """unit = dict(cell, dtype, lattice, dts, aslist)   - all ts subsets of the lattice sharing each (first,last)"""
    out = Out()
    cell = tuple(unit['cell'])
    st, nt, method, opts = cell
    dtype = getattr(torch, unit['dtype'])
    lattice = unit['lattice']
    rtol = 1e-12 if dtype == torch.float64 else 2e-5
    with torch.no_grad():
        for dt in unit['dts']:
            for i0, i1 in itertools.combinations(range(len(lattice)), 2):
                t_first, t_last = lattice[i0], lattice[i1]
                prog, y0, bm = cell_setup(cell, dtype, entropy=unit['entropy'], t0=min(lattice[0], 0.),
                                          t1=max(lattice[-1], 1.))
                gts, gys, _ = reference_trajectory(prog, y0, bm, method, opts, t_first, t_last, dt, dtype)
                gfl = [float(t) for t in gts]
                ref_queries = list(zip(gfl[:-1], gfl[1:]))
                interior = lattice[i0 + 1:i1]
                base_out = {}
                for r in range(len(interior) + 1):
                    for mid in itertools.combinations(interior, r):
                        ts = [t_first] + list(mid) + [t_last]
                        for aslist in unit['aslist']:
                            rec = seams.RecordingBM(bm)
                            ts_arg = ts if aslist else torch.tensor(ts, dtype=dtype)
                            ys = torchsde.sdeint(prog, y0, ts_arg, bm=rec, method=method, dt=dt,
                                                 options=dict(opts))
                            out.count('executions')
                            label = dict(cell=zoo.cell_name(cell), dtype=unit['dtype'], ts=ts, dt=dt,
                                         ts_as_list=aslist)

                            def bad(kind, detail):
                                out.violation(dict(kind=kind, cell=zoo.cell_name(cell), dtype=unit['dtype'],
                                                   aligned=all((t - t_first) / dt == round((t - t_first) / dt)
                                                               for t in ts)),
                                              detail, dict(engine='B-c12', entropy=unit['entropy'], **label))

                            if tuple(ys.shape) != (len(ts),) + tuple(y0.shape) or ys.dtype != y0.dtype:
                                bad('shape', f"result shape {tuple(ys.shape)} dtype {ys.dtype}")
                                continue
                            if not _eq(ys[0], y0):
                                bad('ys0', "ys[0] is not y0 bit-for-bit")
                                continue
                            q = [(a, b) for a, b, _, _ in rec.log]
                            if q != ref_queries:
                                bad('grid', f"Brownian queries {q[:6]}... are not the dt-grid steps {ref_queries[:6]}...")
                                continue
                            nontriv = False
                            ok = True
                            for k, t in enumerate(ts):
                                if t in gfl:
                                    if not _eq(ys[k], gys[gfl.index(t)]):
                                        bad('grid_state', f"output at grid time {t} is not the grid state "
                                            f"(max diff {float((ys[k] - gys[gfl.index(t)]).abs().max())})")
                                        ok = False
                                        break
                                else:
                                    j = max(i for i, g in enumerate(gfl) if g < t)
                                    a, b = gfl[j], gfl[j + 1]
                                    w = (t - a) / (b - a)
                                    interp = (1 - w) * gys[j] + w * gys[j + 1]
                                    sc = max(1.0, float(interp.abs().max()))
                                    if float((ys[k] - interp).abs().max()) > rtol * sc:
                                        bad('interp', f"output at {t} inside step [{a},{b}] is not the linear "
                                            f"interpolant: diff {float((ys[k] - interp).abs().max())}")
                                        ok = False
                                        break
                                    nontriv = True
                            if not ok:
                                continue
                            # invariance under adding/removing/moving interior output times
                            for k, t in enumerate(ts):
                                if t in base_out:
                                    if not _eq(ys[k], base_out[t]):
                                        bad('invariance', f"value at {t} changed when other output times changed")
                                        break
                                else:
                                    base_out[t] = ys[k]
                            if nontriv:
                                out.keys.add((zoo.cell_name(cell), unit['dtype'], tuple(ts), dt))
                            out.sample(label, limit=1)
    return out.pack()


def c12_list_unit(unit):
    """ts given as a list/tuple must behave exactly like the same times given as a tensor of y0's dtype: same
    Brownian queries, torch.equal outputs - at times that are NOT exactly representable in float32, for float32 and
    float64 states, under both values of torch's global default dtype."""
    out = Out()
    cell = tuple(unit['cell'])
    st, nt, method, opts = cell
    old_default = torch.get_default_dtype()
    try:
        for default, dtype_name in itertools.product((torch.float32, torch.float64), ('float64', 'float32')):
            torch.set_default_dtype(default)
            dtype = getattr(torch, dtype_name)
            for tsl, dt in (([0., 0.1, 0.37, 0.7], 0.1), ([0.05, 0.33, 0.9], 0.3), ((0., 0.7), 0.17)):
                with torch.no_grad():
                    prog, y0, bm = cell_setup(cell, dtype, entropy=unit['entropy'])
                    r1, r2 = seams.RecordingBM(bm), seams.RecordingBM(bm)
                    a = torchsde.sdeint(prog, y0, torch.tensor(list(tsl), dtype=dtype), bm=r1, method=method, dt=dt,
                                        options=dict(opts))
                    b = torchsde.sdeint(prog, y0, tsl, bm=r2, method=method, dt=dt, options=dict(opts))
                out.count('executions', 2)
                label = dict(cell=zoo.cell_name(cell), dtype=dtype_name, default_dtype=str(default), ts=list(tsl), dt=dt,
                             ts_container=type(tsl).__name__)
                if b.dtype != y0.dtype or tuple(b.shape) != (len(tsl),) + tuple(y0.shape):
                    out.violation(dict(kind='shape', cell=zoo.cell_name(cell), dtype=dtype_name), f"{label}: result "
                                  f"dtype/shape {b.dtype} {tuple(b.shape)}", dict(engine='B-c12-list', **label))
                elif r1.log != r2.log or not _eq(a, b):
                    out.violation(dict(kind='list_vs_tensor', cell=zoo.cell_name(cell), dtype=dtype_name,
                                       default_dtype=str(default)),
                                  f"{label}: ts as {type(tsl).__name__} and ts as a tensor of y0's dtype give different "
                                  f"results (max diff {float((a - b).abs().max())}; first queries {r2.log[:2]} vs "
                                  f"{r1.log[:2]})", dict(engine='B-c12-list', entropy=unit['entropy'], **label))
                else:
                    out.keys.add(('list', zoo.cell_name(cell), dtype_name, str(default), tuple(tsl), dt))
    finally:
        torch.set_default_dtype(old_default)
    return out.pack()


# ---------------------------------------------------------------------------------------------------
# C13
# ---------------------------------------------------------------------------------------------------
def c13_unit(unit):
    """unit = dict(cell, N, entropy): all subsets of interior grid points as restart points."""
    out = Out()
    cell = tuple(unit['cell'])
    st, nt, method, opts = cell
    N = unit['N']
    dt = 1.0 / N if N in (2, 4, 8, 16) else 1.0 / 8
    T = N * dt
    pts = [k * dt for k in range(N + 1)]
    if unit.get('tail'):
        # the final time is off the step grid (only restart points have to be on it): the last step is clipped
        pts.append(N * dt + unit['tail'] * dt)
        T = pts[-1]
    NP = len(pts) - 1  # number of intervals between consecutive points; restart candidates are pts[1:NP]
    dtype = torch.float64
    with torch.no_grad():
        # many batch rows: a rounding-level discrepancy in the restart state must have a chance to show in some row
        prog, y0, bm = cell_setup(cell, dtype, entropy=unit['entropy'], t1=max(T, 1.0), batch=unit.get('batch', 24))
        ts_all = torch.tensor(pts, dtype=dtype)
        ys_one, extra_one = torchsde.sdeint(prog, y0, ts_all, bm=bm, method=method, dt=dt, options=dict(opts),
                                            extra=True)
        for r in range(0, N):
            for restarts in itertools.combinations(range(1, N if not unit.get('tail') else N + 1), r):
                bounds = [0] + list(restarts) + [NP]
                y = y0
                extra = None
                ok = True
                for a, b in zip(bounds[:-1], bounds[1:]):
                    ts = torch.tensor(pts[a:b + 1], dtype=dtype) if unit.get('dense', True) else \
                        torch.tensor([pts[a], pts[b]], dtype=dtype)
                    ys, extra = torchsde.sdeint(prog, y, ts, bm=bm, method=method, dt=dt, options=dict(opts),
                                                extra=True, extra_solver_state=extra)
                    for k in range(ys.shape[0]):
                        idx = a + k if unit.get('dense', True) else (a if k == 0 else b)
                        if not _eq(ys[k], ys_one[idx]):
                            out.violation(dict(kind='chunk_value', cell=zoo.cell_name(cell), nrestarts=len(restarts)),
                                          f"restarts at grid indices {restarts}: value at t={pts[idx]} differs from "
                                          f"the one-shot solve by {float((ys[k] - ys_one[idx]).abs().max())}",
                                          dict(engine='B-c13', cell=zoo.cell_name(cell), N=N, dt=dt,
                                               restarts=list(restarts), entropy=unit['entropy']))
                            ok = False
                            break
                    if not ok:
                        break
                    y = ys[-1]
                if ok:
                    if len(extra) != len(extra_one) or any(not _eq(e1, e2) for e1, e2 in zip(extra, extra_one)):
                        out.violation(dict(kind='chunk_extra', cell=zoo.cell_name(cell), nrestarts=len(restarts)),
                                      f"restarts {restarts}: final extra solver state differs from one-shot",
                                      dict(engine='B-c13', cell=zoo.cell_name(cell), N=N, dt=dt,
                                           restarts=list(restarts), entropy=unit['entropy']))
                out.count('executions')
                if restarts:
                    out.keys.add((zoo.cell_name(cell), N, restarts, unit.get('dense', True), unit.get('tail', 0)))
        out.sample(dict(cell=zoo.cell_name(cell), N=N, dt=dt, restart_sets=2 ** (N - 1),
                        extra_state_tensors=len(extra_one)), limit=1)
    return out.pack()


# ---------------------------------------------------------------------------------------------------
# C14
# ---------------------------------------------------------------------------------------------------
E_ALPHABET = (0.5, 1e-6, 1.0, 1.0 + 1e-9, 3.0, 1e6)
TRIAL_CAP = 2000


class TrialCap(Exception):
    pass


def adaptive_run(cell, ts, dt, dt_min, choices, entropy=3, default=0.5, real_error=False, rtol=1e-3, atol=1e-3,
                 prog=None, y0=None):
    """Run integrate(adaptive=True) to completion with the error estimate scripted by `choices` then `default`.

    Returns dict(trials=[(t0,t1,err)], ys, log, warnings)."""
    st, nt, method, opts = cell
    dtype = torch.float64
    if prog is None:
        prog, y0, bm = cell_setup(cell, dtype, entropy=entropy, t0=ts[0], t1=ts[-1])
    else:
        bm = zoo.make_bm(prog, y0.shape[0], zoo.levy_for(method), entropy, t0=ts[0], t1=ts[-1])
    rec = seams.RecordingBM(bm)
    errs = []
    from torchsde._core import adaptive_stepping
    real = adaptive_stepping.compute_error

    def scripted(y11, y12, rtol_, atol_, eps=1e-7):
        i = len(errs)
        if i >= TRIAL_CAP:
            raise TrialCap()
        if real_error:
            e = real(y11, y12, rtol_, atol_)
        else:
            e = choices[i] if i < len(choices) else default
        errs.append((e, y11.detach().clone(), y12.detach().clone()))
        return e

    with torch.no_grad():
        with seams.scripted_error(scripted):
            try:
                ys = torchsde.sdeint(prog, y0, torch.tensor(ts, dtype=dtype), bm=rec, method=method, dt=dt,
                                     adaptive=True, rtol=rtol, atol=atol, dt_min=dt_min, options=dict(opts))
                capped = False
            except TrialCap:
                ys = None
                capped = True
    return dict(errs=errs, ys=ys, log=rec.log, capped=capped, prog=prog, y0=y0, bm=bm, rtol=rtol, atol=atol)


def check_adaptive_run(cell, ts, dt, dt_min, run, out, label, real_error=False):
    """All invariants of C14 on one completed run.  Returns list of (kind, detail)."""
    bad = []
    st, nt, method, opts = cell
    if run['capped']:
        return [('nontermination', f"more than {TRIAL_CAP} trials")]
    log = run['log']
    errs = run['errs']
    if len(log) != 3 * len(errs):
        return [('harness_parse', f"{len(log)} Brownian queries for {len(errs)} trials (expected 3 per trial)")]
    T0, T1 = ts[0], ts[-1]
    trials = []
    for i, (e, y_full, y_half) in enumerate(errs):
        (a, b, _, _), (a1, m1, _, _), (m2, b2, _, _) = log[3 * i:3 * i + 3]
        if not (a == a1 and b == b2 and m1 == m2):
            return [('harness_parse', f"trial {i} queries {log[3 * i:3 * i + 3]} are not (full, half, half)")]
        trials.append((a, b, e))
    cur = T0
    accepted = []
    for i, (a, b, e) in enumerate(trials):
        if a != cur:
            bad.append(('contiguity', f"trial {i} starts at {a}, current time is {cur}"))
            break
        if not (b > a):
            bad.append(('advance', f"trial {i} [{a},{b}] does not advance"))
            break
        if a < T0 or b > T1:
            bad.append(('range', f"trial {i} [{a},{b}] leaves [{T0},{T1}]"))
            break
        if (b - a) < dt_min * (1 - 1e-12) and b != T1:
            bad.append(('dt_min', f"trial {i} [{a},{b}] is shorter than dt_min={dt_min} and not clipped to ts[-1]"))
            break
        nxt = trials[i + 1] if i + 1 < len(trials) else None
        is_acc = (nxt is None) or (nxt[0] == b)
        if nxt is not None and nxt[0] not in (a, b):
            bad.append(('contiguity', f"trial {i + 1} starts at {nxt[0]}, neither retry of nor successor to [{a},{b}]"))
            break
        if e <= 1 and not is_acc:
            bad.append(('accept_rule', f"trial {i} [{a},{b}] has error {e} <= 1 but was not accepted"))
            break
        if e > 1:
            if not is_acc:
                # rejected: must be retried strictly smaller
                if not (nxt[1] - nxt[0] < (b - a)):
                    bad.append(('retry_not_smaller', f"trial {i} [{a},{b}] rejected (error {e}) and retried as "
                                f"[{nxt[0]},{nxt[1]}], which is not shorter"))
                    break
                out.count('rejected_trials')
            else:
                # accepted despite error > 1: only legitimate when the controller has reached dt_min, i.e. when the
                # retry would have been at dt_min: the controller shrinks a rejected step by at least `facmin`
                # (documented default of update_step_size), so the accepted trial cannot be longer than dt_min / facmin
                from torchsde._core import adaptive_stepping
                import inspect
                facmin = inspect.signature(adaptive_stepping.update_step_size).parameters['facmin'].default
                out.count('accepted_at_dt_min')
                if (b - a) > dt_min / facmin * (1 + 1e-9):
                    bad.append(('accept_rule', f"trial {i} [{a},{b}] of length {b - a} has error {e} > 1 and was "
                                f"accepted although a retry shrunk by facmin={facmin} would still be longer than "
                                f"dt_min={dt_min} (the controller had not reached dt_min)"))
                    break
                if nxt is not None and (nxt[1] - nxt[0]) > dt_min * (1 + 1e-9) and nxt[1] != T1:
                    bad.append(('accept_rule', f"trial {i} [{a},{b}] has error {e} > 1, was accepted, yet the next "
                                f"trial has length {nxt[1] - nxt[0]} > dt_min"))
                    break
        if is_acc:
            accepted.append(i)
            cur = b
    else:
        if cur != T1:
            bad.append(('end', f"accepted steps end at {cur}, not at ts[-1]={T1}"))
    if bad:
        return bad
    # a trial too short to bisect in floating point (0.5 (a + b) is a or b): one "half step" has length zero
    unbisectable = [(a, b) for a, b, e in trials if 0.5 * (a + b) in (a, b)]
    if unbisectable:
        out.count('runs_with_unbisectable_trial')
    if run['ys'] is not None and not bool(torch.isfinite(run['ys']).all()):
        kind = 'nonfinite_after_unbisectable_trial' if unbisectable else 'nonfinite'
        return [(kind, f"non-finite values returned; trial(s) {unbisectable[:2]} cannot be bisected in floating point, so "
                 f"a half step of length zero was taken" if unbisectable else "non-finite values returned")]
    # values: two-half-step solution on accepted steps, interpolated at interior output times
    prog, y0, bm = run['prog'], run['y0'], run['bm']
    solver = zoo.make_solver(prog, bm, method, dt, opts)
    with torch.no_grad():
        y = y0
        extra = solver.init_extra_solver_state(torch.tensor(T0, dtype=y0.dtype), y0)
        states = [(T0, y0)]
        for i in accepted:
            a, b, e = trials[i]
            ta, tb = torch.tensor(a, dtype=y0.dtype), torch.tensor(b, dtype=y0.dtype)
            tm = 0.5 * (ta + tb)
            y_full, _ = solver.step(ta, tb, y, extra)
            ym, em = solver.step(ta, tm, y, extra)
            y, extra = solver.step(tm, tb, ym, em)
            states.append((b, y))
            if real_error:
                # the error the controller used must be the mixed rtol/atol RMS norm of (full - two halves)
                e_ref = ref_error(y_full, y, run['rtol'], run['atol'])
                if abs(e_ref - e) > 1e-9 * max(1.0, abs(e_ref)):
                    bad.append(('error_norm', f"trial {i}: controller used error {e}, reference norm gives {e_ref}"))
                    return bad
        ys = run['ys']
        if not _eq(ys[-1], states[-1][1]):
            bad.append(('values', f"ys[-1] is not the two-half-step solution on the accepted steps "
                        f"(diff {float((ys[-1] - states[-1][1]).abs().max())})"))
            return bad
        if not _eq(ys[0], y0):
            bad.append(('values', "ys[0] is not y0"))
        for k, t in enumerate(ts[1:-1], start=1):
            j = max(i for i, (s, _) in enumerate(states) if s < t)
            (a, ya), (b, yb) = states[j], states[j + 1]
            if t == b:
                ref = yb
            else:
                w = (t - a) / (b - a)
                ref = (1 - w) * ya + w * yb
            if float((ys[k] - ref).abs().max()) > 1e-12 * max(1.0, float(ref.abs().max())):
                bad.append(('values', f"output at interior time {t} is not the interpolant of accepted states"))
                break
    return bad


def ref_error(y_full, y_half, rtol, atol, eps=1e-7):
    """Independent implementation of the mixed rtol/atol RMS norm (plain Python over elements)."""
    a = y_full.reshape(-1).tolist()
    b = y_half.reshape(-1).tolist()
    s = 0.0
    for x, y in zip(a, b):
        tol = max(rtol * max(abs(x), abs(y)) + atol, eps)
        s += ((x - y) / tol) ** 2
    return max(math.sqrt(s / len(a)), eps)


def c14_explore_unit(unit):
    """Deviation-bounded exploration of controller decision sequences (CHESS style), plus full product prefixes.

    unit = dict(cell, ts, dt, dt_min, mode='prefix'|'deviation', prefixes=[...] | bound=D, first=[alt indices])"""
    out = Out()
    cell = tuple(unit['cell'])
    ts, dt, dt_min = unit['ts'], unit['dt'], unit['dt_min']
    alts = [e for e in E_ALPHABET if e != 0.5]

    def one(choices):
        run = adaptive_run(cell, ts, dt, dt_min, choices, entropy=unit['entropy'])
        out.count('executions')
        out.count('transitions', len(run['errs']))
        label = dict(cell=zoo.cell_name(cell), ts=ts, dt=dt, dt_min=dt_min,
                     errors=[c for c in choices], then_default=0.5)
        bad = check_adaptive_run(cell, ts, dt, dt_min, run, out, label)
        for kind, detail in bad:
            if kind == 'harness_parse':
                raise HarnessError(detail)
            out.violation(dict(kind=kind, cell=zoo.cell_name(cell)), detail,
                          dict(engine='B-c14', entropy=unit['entropy'], **label))
        # state key: the controller's observable decision trace
        if not run['capped']:
            tr = tuple((a, b) for a, b, _, _ in run['log'][::3])
            out.keys.add(digest([zoo.cell_name(cell), ts, dt, dt_min, tr]))
            for s in set(tr):
                out.keys.add(digest([zoo.cell_name(cell), ts, dt, dt_min, s]))
        out.mx('max_trials_in_a_run', len(run['errs']))
        out.sample(dict(label, trials=len(run['errs'])), limit=1)
        return len(run['errs'])

    if unit['mode'] == 'prefix':
        for p in unit['prefixes']:
            one(list(p))
    else:
        D = unit['bound']

        def explore(prefix, ndev):
            n = one(prefix)
            if ndev >= D:
                return
            for i in range(len(prefix), min(n, unit.get('horizon', 80))):
                for alt in alts:
                    explore(prefix + [0.5] * (i - len(prefix)) + [alt], ndev + 1)

        n0 = len(adaptive_run(cell, ts, dt, dt_min, [], entropy=unit['entropy'])['errs'])
        for first in unit['first']:
            if first is None:
                one([])
            else:
                i, alt = first
                if i < n0:
                    explore([0.5] * i + [alt], 1)
    return out.pack()
