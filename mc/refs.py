"""Reference formulas (engine D oracles): stochastic Taylor coefficient functions from the user program by nested
explicit Jacobians, truncated Ito-/Stratonovich-Taylor expansions, moments of the exact solution.

Nothing here uses the library's own operators (g_prod, gdg_prod, ...): only prog.f / prog.g and torch.autograd.functional.
"""
import itertools
import math

import numpy as np
import torch
from torch.autograd.functional import jacobian


class Coeffs:
    """Coefficient functions of one program at one base point (t, y) (single row)."""

    def __init__(self, prog, t, y):
        self.prog = prog
        self.t = torch.as_tensor(t, dtype=torch.float64)
        self.y = y.detach().clone().to(torch.float64)  # (d,)
        self.d = y.numel()
        self.nt = prog.noise_type
        self.st = prog.sde_type
        G = self.G(self.y, self.t)
        self.m = G.shape[1]

    # program as functions of a single state row ------------------------------------------------------
    def f(self, y, t=None):
        t = self.t if t is None else t
        return self.prog.f(t, y.unsqueeze(0))[0]

    def G(self, y, t=None):
        t = self.t if t is None else t
        g = self.prog.g(t, y.unsqueeze(0))[0]
        return torch.diag_embed(g) if self.nt == 'diagonal' else g  # (d, m)

    # derived --------------------------------------------------------------------------------------------
    def col(self, k):
        return lambda y, t=None: self.G(y, t)[:, k]

    def D(self, fn, y=None, create_graph=False):
        y = self.y if y is None else y
        return jacobian(fn, y, create_graph=create_graph)  # (out..., d)

    def dt_of(self, fn):
        """Partial time derivative of fn(y, t) at the base point."""
        return jacobian(lambda t: fn(self.y, t), self.t)

    def Lj(self, fn, j):
        """L^j fn = D fn . g_j as a function of y (differentiable)."""
        return lambda y, t=None: jacobian(lambda z: fn(z, t), y, create_graph=True) @ self.G(y, t)[:, j]

    def ito_drift(self, y=None, t=None):
        """Drift of the equivalent Ito SDE."""
        y = self.y if y is None else y
        f = self.f(y, t)
        if self.st == 'ito':
            return f
        corr = 0.
        for k in range(self.m):
            corr = corr + jacobian(lambda z: self.G(z, t)[:, k], y, create_graph=True) @ self.G(y, t)[:, k]
        return f + 0.5 * corr

    def L0_ito(self, fn):
        """Ito generator applied to a vector function fn(y,t) at the base point (value only)."""
        y = self.y
        val = self.dt_of(fn)
        J = jacobian(lambda z: fn(z, None), y)
        val = val + J @ self.ito_drift().detach()
        Hs = jacobian(lambda z: jacobian(lambda w: fn(w, None), z, create_graph=True), y)  # (out,d,d)
        G = self.G(y)
        for k in range(self.m):
            val = val + 0.5 * torch.einsum('oij,i,j->o', Hs, G[:, k], G[:, k])
        return val.detach()


def commutative(c, tol=1e-12):
    """Is the noise commutative at the base point (L^j g_k == L^k g_j)?"""
    for j, k in itertools.combinations(range(c.m), 2):
        a = c.Lj(c.col(k), j)(c.y)
        b = c.Lj(c.col(j), k)(c.y)
        if float((a - b).abs().max()) > tol:
            return False
    return True


def taylor(c, p, h, dW, U, ms_only=True):
    """Truncated strong Taylor expansion of order p (Kloeden-Platen) for increments dW, U of shape (N, m).

    Valid for diagonal / scalar / additive / commutative noise at p >= 1, any noise at p = 0.5.
    Returns (N, d)."""
    y = c.y
    N = dW.shape[0]
    f = c.f(y).detach()
    G = c.G(y).detach()
    out = y.unsqueeze(0) + f * h + dW @ G.T
    if p >= 1.0:
        for k in range(c.m):
            Lkgk = c.Lj(c.col(k), k)(y).detach()
            if c.st == 'ito':
                out = out + 0.5 * Lkgk * (dW[:, k:k + 1] ** 2 - h)
            else:
                out = out + 0.5 * Lkgk * dW[:, k:k + 1] ** 2
        for j, k in itertools.combinations(range(c.m), 2):
            Ljgk = c.Lj(c.col(k), j)(y).detach()
            out = out + Ljgk * (dW[:, j:j + 1] * dW[:, k:k + 1])  # commutative: I_jk + I_kj = dW_j dW_k
    if p >= 1.5:
        if c.st != 'ito':
            raise NotImplementedError("order 1.5 Stratonovich-Taylor not needed (no solver advertises it)")
        for k in range(c.m):
            Lkf = c.Lj(lambda z, t=None: c.f(z, t), k)(y).detach()
            L0gk = c.L0_ito(c.col(k))
            LkLkgk = c.Lj(c.Lj(c.col(k), k), k)(y).detach()
            Wk = dW[:, k:k + 1]
            Uk = U[:, k:k + 1]
            out = out + Lkf * Uk + L0gk * (h * Wk - Uk) + LkLkgk * (Wk ** 3 - 3 * h * Wk) / 6
        out = out + 0.5 * c.L0_ito(lambda z, t=None: c.f(z, t)) * h * h
    return out


def mean_exact(c, p, h):
    """E[y(t+h)] up to (not including) order h^(p+1)."""
    y = c.y
    a = c.ito_drift().detach()
    out = y + a * h
    if p + 1 > 2:
        out = out + 0.5 * c.L0_ito(lambda z, t=None: c.ito_drift(z, t)) * h * h
    return out


# Gauss-Hermite tensor grids -------------------------------------------------------------------------
def gh(n):
    x, w = np.polynomial.hermite_e.hermegauss(n)
    return torch.tensor(x, dtype=torch.float64), torch.tensor(w / w.sum(), dtype=torch.float64)


def tensor_grid(ns):
    """ns: list of node counts per coordinate.  Returns nodes (N, len(ns)) and weights (N,)."""
    xs, ws = zip(*[gh(n) for n in ns])
    nodes = torch.cartesian_prod(*xs) if len(xs) > 1 else xs[0].unsqueeze(-1)
    if nodes.dim() == 1:
        nodes = nodes.unsqueeze(-1)
    weights = torch.cartesian_prod(*ws) if len(ws) > 1 else ws[0].unsqueeze(-1)
    if weights.dim() == 1:
        weights = weights.unsqueeze(-1)
    return nodes, weights.prod(dim=1)
