"""Engine C/D building blocks: the finite program alphabet (drift/diffusion programs per noise type) and the table of
(sde_type, noise_type, method, options) cells the documentation says are supported.

The support table is transcribed from DOCUMENTATION.md / the solver docstrings, NOT from the dispatch code.
"""
import itertools
import math

import torch
from torch import nn

import torchsde

SDE_TYPES = ('ito', 'stratonovich')
NOISE_TYPES = ('diagonal', 'scalar', 'additive', 'general')
METHODS = ('euler', 'milstein', 'srk', 'euler_heun', 'heun', 'midpoint', 'log_ode', 'reversible_heun')
LEVY = ('none', 'space-time', 'davie', 'foster')

# documentation table -------------------------------------------------------------------------------
DOC_SDE_TYPE = {'euler': 'ito', 'milstein': 'both', 'srk': 'ito', 'euler_heun': 'stratonovich',
                'heun': 'stratonovich', 'midpoint': 'stratonovich', 'log_ode': 'stratonovich',
                'reversible_heun': 'stratonovich'}
DOC_NOISE = {'euler': NOISE_TYPES, 'milstein': ('diagonal', 'scalar', 'additive'),
             'srk': ('diagonal', 'scalar', 'additive'), 'euler_heun': NOISE_TYPES, 'heun': NOISE_TYPES,
             'midpoint': NOISE_TYPES, 'log_ode': NOISE_TYPES, 'reversible_heun': NOISE_TYPES}
DOC_LEVY = {'srk': ('space-time', 'davie', 'foster'), 'log_ode': ('davie', 'foster')}
DOC_DEFAULT = {('ito', 'diagonal'): 'srk', ('ito', 'additive'): 'srk', ('ito', 'scalar'): 'srk',
               ('ito', 'general'): 'euler', ('stratonovich', 'diagonal'): 'midpoint',
               ('stratonovich', 'additive'): 'midpoint', ('stratonovich', 'scalar'): 'midpoint',
               ('stratonovich', 'general'): 'midpoint'}
DOC_DEFAULT_ADJOINT = {('ito', 'diagonal'): 'milstein', ('ito', 'additive'): 'euler', ('ito', 'scalar'): 'euler',
                       ('ito', 'general'): 'euler', ('stratonovich', 'diagonal'): 'midpoint',
                       ('stratonovich', 'additive'): 'midpoint', ('stratonovich', 'scalar'): 'midpoint',
                       ('stratonovich', 'general'): 'midpoint'}
# advertised strong orders (solver docstrings / DOCUMENTATION.md)
def doc_strong_order(method, noise_type):
    if method == 'euler':
        return 1.0 if noise_type == 'additive' else 0.5
    if method == 'milstein':
        return 1.0
    if method == 'srk':
        return 1.5
    if method in ('euler_heun', 'heun', 'midpoint', 'log_ode'):
        return 0.5 if noise_type == 'general' else 1.0
    if method == 'reversible_heun':
        return 1.0 if noise_type == 'additive' else 0.5
    raise KeyError(method)


def supported(sde_type, noise_type, method, levy=None):
    st = DOC_SDE_TYPE[method]
    if st != 'both' and st != sde_type:
        return False
    if noise_type not in DOC_NOISE[method]:
        return False
    if levy is not None and method in DOC_LEVY and levy not in DOC_LEVY[method]:
        return False
    return True


def levy_for(method, prefer='foster'):
    if method == 'srk':
        return 'space-time'
    if method == 'log_ode':
        return prefer
    return 'none'


def cells(grad_free=True):
    """All supported (sde_type, noise_type, method, options) cells: 33 (+6 grad_free Milstein)."""
    out = []
    for st, nt, m in itertools.product(SDE_TYPES, NOISE_TYPES, METHODS):
        if supported(st, nt, m):
            out.append((st, nt, m, {}))
            if m == 'milstein' and grad_free:
                out.append((st, nt, m, {'grad_free': True}))
    return out


def cell_name(cell):
    st, nt, m, opt = cell
    return f"{st}/{nt}/{m}" + ('/grad_free' if opt.get('grad_free') else '')


# program alphabet ----------------------------------------------------------------------------------
class Prog(nn.Module):
    """A drift/diffusion program.  variant selects structure; sizes (d, m)."""

    def __init__(self, noise_type, sde_type, d=2, m=2, variant=0, dtype=torch.float64, time_dep=True):
        super().__init__()
        self.noise_type = noise_type
        self.sde_type = sde_type
        self.d, self.m, self.variant, self.time_dep = d, m, variant, time_dep
        gen = torch.Generator().manual_seed(100 + 10 * variant + d + 3 * m)
        r = lambda *s: torch.randn(*s, dtype=dtype, generator=gen)
        self.theta_f = nn.Parameter(0.5 * r(d, d))  # drift only (couples components)
        self.theta_g = nn.Parameter(0.3 * r(d, max(m, 1)))  # diffusion only
        self.psi = nn.Parameter(torch.tensor(0.7, dtype=dtype))  # both
        self.unused = nn.Parameter(r(2))  # not used by the SDE
        self.frozen = nn.Parameter(0.2 * r(d), requires_grad=False)
        # fixed (non-parameter) structure
        self.register_buffer('A', 0.4 * r(d, d))  # non-symmetric
        if d >= 2:
            self.A[0, 1] += 0.8
        self.register_buffer('Ak', 0.4 * r(max(m, 1), d, d))
        self.register_buffer('G0', 0.5 * r(d, max(m, 1)))
        self.register_buffer('G1', 0.3 * r(d, max(m, 1)))
        self.nfe = 0

    def _tt(self, t, y):
        t = torch.as_tensor(t, dtype=y.dtype)
        return t if self.time_dep else torch.zeros((), dtype=y.dtype)

    def f(self, t, y):
        tt = self._tt(t, y)
        if self.variant == 2:  # linear drift (closed forms)
            return -self.psi * y
        return torch.sin(y) @ self.theta_f.T - self.psi * y + 0.3 * torch.cos(tt) + self.frozen

    def g(self, t, y):
        tt = self._tt(t, y)
        nt = self.noise_type
        if nt == 'diagonal':
            if self.variant == 2:
                return 0.5 * self.psi * y
            return 0.4 + 0.3 * torch.sin(y) * self.theta_g[:, 0] + 0.1 * self.psi * y ** 2 / (1 + y ** 2) + 0.1 * tt
        if nt == 'scalar':
            if self.variant == 1:
                return (torch.tanh(y @ self.A.T) * self.theta_g[:, 0] + 0.2 * self.psi + 0.1 * tt).unsqueeze(-1)
            return (y @ self.A.T + self.theta_g[:, 0] * self.psi).unsqueeze(-1)  # g = A y + c, non-symmetric
        if nt == 'additive':
            G = self.G0 * self.psi + self.theta_g + tt * self.G1
            return G.unsqueeze(0).expand(y.shape[0], -1, -1)
        # general: non-commuting columns
        cols = []
        for k in range(self.m):
            c = y @ self.Ak[k].T * (0.6 if self.variant == 0 else 0.3) + self.theta_g[:, k] * self.psi
            if self.variant == 1:
                c = c + 0.3 * torch.sin(y.roll(1, dims=-1)) + 0.1 * tt
            cols.append(c)
        return torch.stack(cols, dim=-1)

    def h(self, t, y):  # prior drift for logqp
        return -0.5 * y + 0.1 * torch.sin(y)


def programs(noise_type, sde_type, tier='quick'):
    """(name, module, batch) tuples; sizes restricted per noise type."""
    out = []
    if noise_type == 'diagonal':
        sizes = [(2, 2), (3, 3)]
    elif noise_type == 'scalar':
        sizes = [(2, 1), (3, 1)]
    else:
        sizes = [(2, 2), (3, 2), (2, 3)]
    variants = [0, 1] if noise_type in ('scalar', 'general') else [0]
    for (d, m), v in itertools.product(sizes, variants):
        out.append((f"{noise_type}-d{d}m{m}v{v}", Prog(noise_type, sde_type, d, m, v)))
    if tier == 'quick':
        out = out[:2]
    # one-dimensional state and noise (squeeze / broadcasting slips only show at size 1)
    out.append((f"{noise_type}-d1m1v1", Prog(noise_type, sde_type, 1, 1, 1)))
    return out


def y0_for(prog, batch=2, seed=0):
    g = torch.Generator().manual_seed(500 + seed)
    return 0.5 + 0.3 * torch.randn(batch, prog.d, dtype=torch.float64, generator=g)


def make_bm(prog, batch, levy, entropy, t0=0., t1=1., dtype=torch.float64, **kw):
    m = prog.d if prog.noise_type == 'diagonal' else prog.m
    return torchsde.BrownianInterval(t0=t0, t1=t1, size=(batch, m), dtype=dtype, entropy=entropy,
                                     levy_area_approximation=levy, **kw)


def make_solver(prog, bm, method, dt, options=None, adaptive=False, rtol=1e-5, atol=1e-4, dt_min=1e-5):
    from torchsde._core import methods
    from torchsde._core.base_sde import ForwardSDE
    fsde = ForwardSDE(prog)
    cls = methods.select(method, prog.sde_type)
    return cls(sde=fsde, bm=bm, dt=dt, adaptive=adaptive, rtol=rtol, atol=atol, dt_min=dt_min,
               options=dict(options or {}))
