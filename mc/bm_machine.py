"""Engine A - the Brownian machine: explicit-state exploration of live BrownianInterval objects.

A *state* is a live object reached by replaying an operation history on a fresh object through the public
``__call__`` only.  Canonical keys read the tree for de-duplication/counting only; every reported counter-example
is a public-API history.
"""
import itertools
import math

import numpy as np
import torch

import torchsde
from torchsde._brownian import brownian_interval as bi

from . import seams
from .core import digest, HarnessError

F64 = torch.float64


def hexf(x):
    return float(x).hex()


# ---------------------------------------------------------------------------------------------------
# configurations
# ---------------------------------------------------------------------------------------------------
def cfg_make(wrapper='interval', size=(2,), levy='none', cache_size=45, dt=None, tol=0., halfway=False,
             given='none', dtype='float64', via='d', t0=0., t1=1.):
    return dict(wrapper=wrapper, size=tuple(size), levy=levy, cache_size=cache_size, dt=dt, tol=tol,
                halfway=halfway, given=given, dtype=dtype, via=via, t0=t0, t1=t1)


def cfg_key(cfg):
    return (f"{cfg['wrapper']}|{cfg['size']}|{cfg['levy']}|c{cfg['cache_size']}|dt{cfg['dt']}|tol{cfg['tol']}|"
            f"hw{int(cfg['halfway'])}|{cfg['given']}|{cfg['dtype']}|{cfg['via']}|t0{cfg['t0']}|t1{cfg['t1']}")


def have_H(cfg):
    return cfg['levy'] in ('space-time', 'davie', 'foster')


def have_A(cfg):
    return cfg['levy'] in ('davie', 'foster')


class Built:
    """A live Brownian object plus handles."""

    def __init__(self, cfg, entropy, given_W=None, given_H=None):
        self.cfg = cfg
        self.w0 = None
        dtype = getattr(torch, cfg['dtype'])
        size = cfg['size']
        t0, t1 = cfg['t0'], cfg['t1']
        w = cfg['wrapper']
        if w == 'interval':
            kw = dict(t0=t0, t1=t1, size=size, dtype=dtype, entropy=entropy, dt=cfg['dt'], tol=cfg['tol'],
                      cache_size=cfg['cache_size'], halfway_tree=cfg['halfway'],
                      levy_area_approximation=cfg['levy'])
            if cfg['given'] in ('W', 'WH'):
                kw['W'] = given_W
            if cfg['given'] in ('H', 'WH'):
                kw['H'] = given_H
            self.obj = torchsde.BrownianInterval(**kw)
            self.top = self.obj
        elif w == 'path':
            np.random.seed(entropy % (2 ** 31))
            self.w0 = torch.full(size, 1.5, dtype=dtype)  # non-zero initial value: point evaluations add it
            self.obj = torchsde.BrownianPath(t0=t0, w0=self.w0)
            self.top = self.obj._interval
        elif w == 'tree':
            self.w0 = torch.full(size, 1.5, dtype=dtype)
            kw = dict(t0=t0, w0=self.w0, t1=t1, entropy=entropy)
            if cfg['tol']:
                kw['tol'] = cfg['tol']
            if cfg['given'] == 'W':
                kw['w1'] = given_W + self.w0
            self.obj = torchsde.BrownianTree(**kw)
            self.top = self.obj._interval
        else:
            raise HarnessError(f"unknown wrapper {w}")
        self.rev = torchsde.ReverseBrownian(self.obj)
        self.H = self.top.levy_area_approximation in ('space-time', 'davie', 'foster')
        self.A = self.top.levy_area_approximation in ('davie', 'foster')

    def q(self, a, b, via=None):
        """Query interval [a,b] of the forward time axis; via 'r' goes through ReverseBrownian (same interval)."""
        via = via or self.cfg['via']
        if via == 'p':
            # point evaluation (single-argument form): value of the path at time b; a is ignored
            import warnings
            with warnings.catch_warnings():
                warnings.simplefilter('ignore')
                out = self.obj(b)
            return (out.clone(), None, None)
        if via == 'd':
            out = self.obj(a, b, return_U=self.H, return_A=self.A)
        else:
            out = self.rev(-b, -a, return_U=self.H, return_A=self.A)
        # snapshot: the library may hand out its stored tensors by reference; answers are compared later
        if not self.H and not self.A:
            return (out.clone(), None, None)
        if self.H and self.A:
            return tuple(x.clone() for x in out)
        if self.H:
            return (out[0].clone(), out[1].clone(), None)
        return (out[0].clone(), None, out[1].clone())


def valid_cfg(cfg):
    """What the constructor documents as valid."""
    if cfg['halfway']:
        if not cfg['tol'] > 0 or cfg['dt'] is not None:
            return False
    return True


# ---------------------------------------------------------------------------------------------------
# operations
# ---------------------------------------------------------------------------------------------------
# op forms (JSON-able):
#   ['q', a, b]            one query (via = cfg default)
#   ['qr', a, b]           one query through ReverseBrownian
#   ['sweepF', t, n, h]    n consecutive steps of length h forward from t
#   ['sweepB', t, n, h]    the same steps, last first, through ReverseBrownian
#   ['trial', t, h]        the three queries of one adaptive trial
def expand(op):
    k = op[0]
    if k == 'q':
        return [('d0', op[1], op[2])]
    if k == 'qr':
        return [('r', op[1], op[2])]
    if k == 'qd':
        return [('d', op[1], op[2])]
    if k == 'p':
        return [('p', op[1], op[1])]
    if k == 'sweepF':
        _, t, n, h = op
        return [('d', t + i * h, t + (i + 1) * h) for i in range(n)]
    if k == 'sweepB':
        _, t, n, h = op
        return [('r', t + i * h, t + (i + 1) * h) for i in reversed(range(n))]
    if k == 'sweepBd':
        _, t, n, h = op
        return [('d', t + i * h, t + (i + 1) * h) for i in reversed(range(n))]
    if k == 'trial':
        _, t, h = op
        m = 0.5 * (t + (t + h))
        return [('d', t, t + h), ('d', t, m), ('d', m, t + h)]
    raise HarnessError(f"unknown op {op}")


def grid_ops(points, zero=True, point_eval=False):
    pts = sorted(points)
    ops = [['q', a, b] for a, b in itertools.combinations(pts, 2)]
    if zero:
        ops += [['q', a, a] for a in pts]
    if point_eval:
        ops += [['p', a] for a in pts]
    return ops


def shift_grid(grid, t0, t1):
    """Affine image of a grid on [0,1] in [t0,t1] (exact for dyadic points and dyadic t0, t1)."""
    return [t0 + g * (t1 - t0) for g in grid]


def edge_ops(points, tol):
    """Queries whose end points (nearly) coincide: 1 ulp long, 1 ulp short of a grid point, shorter than tol."""
    pts = sorted(points)
    ops = []
    for a, b in zip(pts[:-1], pts[1:]):
        ops.append(['q', math.nextafter(b, -math.inf), b])
        ops.append(['q', a, math.nextafter(b, -math.inf)])
        ops.append(['q', math.nextafter(a, math.inf), b])
        if tol:
            ops.append(['q', a, a + tol / 3])
            ops.append(['q', b - tol / 3, b])
    return ops


G8 = sorted(set([i / 8 for i in range(9)] + [1 / 3]))
G4 = sorted(set([i / 4 for i in range(5)] + [1 / 3]))
G10 = [round(i * 0.1, 1) for i in range(11)]
G5 = [round(i * 0.2, 1) for i in range(6)]


# ---------------------------------------------------------------------------------------------------
# canonical state key (de-duplication and counting only)
# ---------------------------------------------------------------------------------------------------
def canon_key(top, with_values=True):
    try:
        nodes = []
        index = {}
        stack = [(top, '')]
        while stack:
            node, path = stack.pop()
            mid = node._midway
            nodes.append((path, hexf(node._start), hexf(node._end), None if mid is None else hexf(mid)))
            index[id(node)] = path
            if mid is not None:
                stack.append((node._right_child, path + 'R'))
                stack.append((node._left_child, path + 'L'))
        cache = top._increment_and_space_time_levy_area_cache
        entries = []
        if isinstance(cache, dict):
            keys = cache._keys if hasattr(cache, '_keys') else list(cache.keys())
            for k in keys:
                W, H = dict.__getitem__(cache, k)
                e = [index.get(id(k), '?')]
                if with_values:
                    e.append(W.numpy().tobytes().hex()[:64])
                    e.append(None if H is None else H.numpy().tobytes().hex()[:64])
                entries.append(e)
        cursor = index.get(id(top._last_interval), '?')
        counters = None
        if not top._halfway_tree:
            counters = (top._num_evaluations, hexf(top._average_dt), hexf(top._tree_dt))
        return digest([nodes, entries, cursor, counters]), len(nodes), len(entries)
    except AttributeError:
        return None, 0, 0


def tree_leaves(top):
    """Leaf intervals [(start,end)] of the current tree (reads internals; used only to pick extra probes)."""
    out = []
    stack = [top]
    while stack:
        n = stack.pop()
        if n._midway is None:
            out.append((n._start, n._end))
        else:
            stack.append(n._right_child)
            stack.append(n._left_child)
    return out


def ref_decompose(top, a, b):
    """Reference decomposition of [a,b] into existing tree nodes by root descent (never uses the cursor).

    Returns list of (start,end) of stored pieces, or None when [a,b] is not a union of stored nodes.
    """
    a = top._round(a)
    b = top._round(b)
    out = []

    def rec(node, a, b):
        if a == node._start and b == node._end:
            out.append((node._start, node._end))
            return True
        if node._midway is None:
            return False
        m = node._midway
        if b <= m:
            return rec(node._left_child, a, b)
        if a >= m:
            return rec(node._right_child, a, b)
        return rec(node._left_child, a, m) and rec(node._right_child, m, b)

    ok = rec(top, a, b)
    return out if ok else None


# ---------------------------------------------------------------------------------------------------
# replay
# ---------------------------------------------------------------------------------------------------
class Replay:
    """Replays a history on a fresh object under seams, evaluating the transition invariants on the way.

    The transition invariants (evaluated for every query executed):
      C05  a query equal to an earlier one returns bit-identical tensors
      C07  no exception; node budget; frame depth; cache bound
    Other invariants are evaluated by the check modules on the resulting ``Built``.
    """

    def __init__(self, cfg, entropy, mode='real', K=None, budget=300000, given=None, perturb=None):
        self.cfg = cfg
        self.entropy = entropy
        self.mode = mode
        self.K = K
        self.budget = budget
        self.first = {}
        self.problems = []  # (kind, detail dict)
        self.nq = 0
        self.max_nodes_per_call = 0
        self.max_depth = 0
        self.max_cache = 0
        self.seam = seams.NoiseSeam(mode, K, perturb, B=(cfg['size'][0] if len(cfg['size']) == 2 else 1))
        self.meters = seams.Meters(budget)
        self.seam.meters = self.meters
        self.b = None
        self.given = given or (None, None)
        self.min_len = None
        self._stack_reported = False

    def __enter__(self):
        self.seam.__enter__()
        self.meters.__enter__()
        return self

    def __exit__(self, *a):
        self.meters.__exit__(*a)
        self.seam.__exit__(*a)

    def construct(self):
        self.meters.reset()
        try:
            self.b = Built(self.cfg, self.entropy, *self.given)
        except seams.WorkBudgetExceeded as e:
            self.problems.append(('budget', dict(at='constructor', exc='WorkBudgetExceeded', msg=str(e))))
            return False
        except (RecursionError, AttributeError, ZeroDivisionError, KeyError, IndexError, TypeError,
                RuntimeError, AssertionError) as e:
            self.problems.append(('exception', dict(at='constructor', exc=type(e).__name__, msg=str(e)[:200])))
            return False
        self._meter_after('constructor')
        return True

    def _meter_after(self, at):
        m = self.meters
        self.max_nodes_per_call = max(self.max_nodes_per_call, m.nodes)
        self.max_depth = max(self.max_depth, m.max_depth)
        cs = self.cfg['cache_size'] if self.cfg['wrapper'] == 'interval' else None
        try:
            cache = self.b.top._increment_and_space_time_levy_area_cache
            n = len(cache) if isinstance(cache, dict) else 0
        except AttributeError:
            n = 0
        self.max_cache = max(self.max_cache, n)
        if cs is not None and n > cs:
            self.problems.append(('cache', dict(at=at, exc='cache_overflow', entries=n, cache_size=cs)))
        bound = depth_bound(self.cfg, self.min_len)
        if m.max_depth > bound and not self._stack_reported:
            self._stack_reported = True
            self.problems.append(('stack', dict(at=at, exc='frame_depth', depth=m.max_depth, bound=bound,
                                                nq=self.nq)))

    def query(self, via, a, b, check_repeat=True):
        """One public query.  Returns (W,U,A) or None when it raised (problem recorded)."""
        if via == 'd0':
            via = self.cfg['via']
        self.meters.reset()
        self.nq += 1
        try:
            ans = self.b.q(a, b, via)
        except seams.WorkBudgetExceeded as e:
            self.problems.append(('budget', dict(at='query', exc='WorkBudgetExceeded', q=[via, a, b], nq=self.nq,
                                                 msg=str(e))))
            return None
        except (RecursionError, AttributeError, ZeroDivisionError, KeyError, IndexError, TypeError, RuntimeError,
                AssertionError, ValueError) as e:
            self.problems.append(('exception', dict(at='query', exc=type(e).__name__, q=[via, a, b], nq=self.nq,
                                                    msg=str(e)[:200])))
            return None
        if b > a and via != 'p':
            self.min_len = (b - a) if self.min_len is None else min(self.min_len, b - a)
        self._meter_after('query')
        for name, x in zip('WUA', ans):
            if x is not None and not bool(torch.isfinite(x).all()):
                self.problems.append(('nonfinite', dict(at='query', exc='nonfinite', q=[via, a, b], nq=self.nq,
                                                        which=name)))
                break
        if check_repeat and self.mode != 'labelled':
            key = (via, hexf(a), hexf(b))
            if key in self.first:
                f = self.first[key]
                for name, x, y in zip('WUA', f, ans):
                    if (x is None) != (y is None) or (x is not None and not torch.equal(x, y)):
                        self.problems.append(('repeat', dict(at='query', exc='repeat_differs', q=[via, a, b],
                                                             nq=self.nq, which=name,
                                                             maxdiff=None if x is None or y is None or
                                                             x.shape != y.shape else float((x - y).abs().max()))))
                        break
            else:
                self.first[key] = ans
        return ans

    def run(self, history):
        """Replay all ops.  Returns list of answers of the expanded queries (None where a query raised)."""
        answers = []
        for op in history:
            for (via, a, b) in expand(op):
                answers.append(((via, a, b), self.query(via, a, b)))
                if self.problems and self.problems[-1][0] in ('budget', 'exception'):
                    return answers
        return answers


def depth_bound(cfg, min_len):
    """Frame-depth allowance at node creation (relative to the public call): legitimate recursion is dyadic."""
    T = cfg['t1'] - cfg['t0']
    res = cfg['tol'] if cfg['tol'] else (min_len or T)
    if cfg['dt']:
        res = min(res, cfg['dt'])
    res = max(res, 1e-12)
    return 200 + 8 * max(0, math.ceil(math.log2(T / res)))
