"""Seams through which the harness owns the library's nondeterminism (DESIGN section 1).

All are Python-level substitutions made in the harness process; no source change in /repo.
"""
import contextlib
import sys

import torch

import torchsde
from torchsde._brownian import brownian_interval as bi

REAL_RANDN = bi._randn


class WorkBudgetExceeded(Exception):
    pass


# ---------------------------------------------------------------------------------------------------
# noise seam
# ---------------------------------------------------------------------------------------------------
class NoiseSeam:
    """Replacement for brownian_interval._randn.

    mode 'real'     : the library's own generator (calls are logged)
    mode 'labelled' : sample shape must be (K,); seed -> one-hot vector at a per-seed index, so every W/H
                      tensor the library returns is its coefficient row over independent N(0,1) labels.
    mode 'table'    : real generator, optionally perturbed: perturb = (seed, index tuple, delta)
    """

    def __init__(self, mode='real', K=None, perturb=None, B=1):
        self.mode = mode
        self.K = K
        self.B = B
        self.perturb = perturb
        self.labels = {}
        self.meters = None
        self.log = []  # (size, seed)

    def __call__(self, size, dtype, device, seed):
        size = tuple(size)
        seed = int(seed)
        self.log.append((size, seed))
        if self.meters is not None:
            # value computation is trampolined in the library; the frame depth at a noise draw shows whether it still is
            f = sys._getframe(1)
            d = 1
            while f is not None:
                d += 1
                f = f.f_back
            if d - self.meters.base_depth > self.meters.max_depth:
                self.meters.max_depth = d - self.meters.base_depth
        if self.mode == 'labelled':
            # sample shape (K,) or (B, K): batch row b of the draw with seed s is the unit vector e_{idx(s) * B + b}, so
            # rows of one draw are independent labels; a draw requested at a smaller (broadcast) shape shares labels
            # between the rows it is later expanded to, which shows up as a non-zero cross-row covariance.
            if size[-1] != self.K:
                raise AssertionError(f"labelled noise asked for size {size}, expected last dimension {self.K}")
            idx = self.labels.setdefault(seed, len(self.labels))
            B = self.B
            if (idx + 1) * B > self.K:
                raise AssertionError("label space exhausted")
            v = torch.zeros(size, dtype=dtype, device=device)
            if len(size) == 1:
                v[idx * B] = 1.
            else:
                for b in range(size[0]):
                    v[b, idx * B + b] = 1.
            return v
        out = REAL_RANDN(size, dtype, device, seed)
        if self.perturb is not None and self.perturb[0] == seed and tuple(out.shape) == tuple(self.perturb[3]):
            out = out.clone()
            out[self.perturb[1]] += self.perturb[2]
        return out

    def __enter__(self):
        bi._randn = self
        return self

    def __exit__(self, *a):
        bi._randn = REAL_RANDN


# ---------------------------------------------------------------------------------------------------
# work / recursion meters around _Interval.__init__
# ---------------------------------------------------------------------------------------------------
class Meters:
    """Counts tree nodes created and records the Python frame depth at node creation.

    All recursive paths of the tree code bottom out in node creation (value computation is trampolined), so the
    maximum frame depth over node creations bounds the stack the library needs, relative to the caller's depth.
    """

    def __init__(self, budget=300000):
        self.budget = budget
        self.nodes = 0
        self.max_depth = 0
        self.base_depth = 0
        self._orig = None

    def reset(self):
        self.nodes = 0
        self.max_depth = 0
        f = sys._getframe(1)
        d = 0
        while f is not None:
            d += 1
            f = f.f_back
        self.base_depth = d

    def __enter__(self):
        orig = bi._Interval.__init__
        self._orig = orig
        meters = self

        def counted_init(self_, *a, **kw):
            meters.nodes += 1
            if meters.nodes > meters.budget:
                raise WorkBudgetExceeded(f"more than {meters.budget} tree nodes created in one public call")
            f = sys._getframe(1)
            d = 1
            while f is not None:
                d += 1
                f = f.f_back
            if d - meters.base_depth > meters.max_depth:
                meters.max_depth = d - meters.base_depth
            return orig(self_, *a, **kw)

        bi._Interval.__init__ = counted_init
        return self

    def __exit__(self, *a):
        bi._Interval.__init__ = self._orig


# ---------------------------------------------------------------------------------------------------
# Brownian proxies handed to solvers
# ---------------------------------------------------------------------------------------------------
class RecordingBM(torchsde.BaseBrownian):
    """Forwards to a real Brownian object and logs every query."""

    def __init__(self, base):
        super().__init__()
        self.base = base
        self.log = []

    def __call__(self, ta, tb=None, return_U=False, return_A=False):
        self.log.append((float(ta), None if tb is None else float(tb), bool(return_U), bool(return_A)))
        return self.base(ta, tb, return_U=return_U, return_A=return_A)

    def __repr__(self):
        return f"RecordingBM({self.base!r})"

    @property
    def dtype(self):
        return self.base.dtype

    @property
    def device(self):
        return self.base.device

    @property
    def shape(self):
        return self.base.shape

    @property
    def levy_area_approximation(self):
        return self.base.levy_area_approximation


class StubBM(torchsde.BaseBrownian):
    """Scripted Brownian motion: returns prescribed (W, U, A) whatever is asked (one step harnesses)."""

    def __init__(self, W, U=None, A=None, levy='none', fn=None):
        super().__init__()
        self.W, self.U, self.A = W, U, A
        self._levy = levy
        self.fn = fn
        self.log = []

    def __call__(self, ta, tb=None, return_U=False, return_A=False):
        self.log.append((float(ta), float(tb), return_U, return_A))
        if self.fn is not None:
            W, U, A = self.fn(float(ta), float(tb))
        else:
            W, U, A = self.W, self.U, self.A
        if return_U:
            if return_A:
                return W, U, A
            return W, U
        if return_A:
            return W, A
        return W

    def __repr__(self):
        return "StubBM()"

    @property
    def dtype(self):
        return self.W.dtype

    @property
    def device(self):
        return self.W.device

    @property
    def shape(self):
        return self.W.shape

    @property
    def levy_area_approximation(self):
        return self._levy


@contextlib.contextmanager
def scripted_error(fn):
    """Replace adaptive_stepping.compute_error (looked up as a module attribute inside integrate)."""
    from torchsde._core import adaptive_stepping
    orig = adaptive_stepping.compute_error
    adaptive_stepping.compute_error = fn
    try:
        yield orig
    finally:
        adaptive_stepping.compute_error = orig
