#!/usr/bin/env python3
"""Prints the measured coverage numbers of the last quick run (evidence/*.json) and, when present, of the last thorough
run (copies kept under /tmp/evidence_thorough_Cxx.json by the thorough driver) as a markdown table for DESIGN.md 13.3."""
import json, os
keys = ('states', 'transitions', 'executions', 'evaluations', 'distinct_nontrivial')
print("| id | tier | wall s | states | transitions | executions | distinct non-trivial | other measured counters |")
print("|---|---|---|---|---|---|---|---|")
for i in range(1, 21):
    pid = f"C{i:02d}"
    for tier, path in (('quick', f'evidence/{pid}.json'), ('thorough', f'/tmp/evidence_thorough_{pid}.json')):
        if not os.path.exists(path):
            continue
        e = json.load(open(path))
        if e['tier'] != tier:
            continue
        c = e['coverage']
        other = {k: v for k, v in c.items() if isinstance(v, (int, float)) and not isinstance(v, bool) and k not in keys
                 and k not in ('known_finding_cases', 'work_units', 'determinism_selfcheck_passed') and not k.startswith('executions_')}
        other = ', '.join(f"{k}={v:.3g}" if isinstance(v, float) else f"{k}={v}" for k, v in list(other.items())[:6])
        print(f"| {pid} | {tier} | {e['wall_s']:.0f} | {c.get('states', '')} | {c.get('transitions', '')} | "
              f"{c.get('executions', c.get('evaluations', ''))} | {c.get('distinct_nontrivial', '')} | {other} |")
