#!/usr/bin/env python3
"""Generates MANIFEST.json from the table below (kept in one place so the manifest is always valid)."""
import json, os
HERE = os.path.dirname(os.path.abspath(__file__))
FIX_COMMITS = []
CHECKS = {
 'C03': ('model_checking', 'A', 'explicit-state exploration of live BrownianInterval objects (BFS over query histories, deviation-bounded solver-shaped histories) with Chen invariants in every state',
         "Every reached state of the real object (all query histories to depth 2 over the constructor product incl. intervals with t0<0<t1 and t0>0, point evaluations with non-zero w0, float32 objects; depth 3 on core configurations; solver-shaped sweeps with <=2 deviations) satisfies Chen's relation for W and U on all grid triples, the zero-length rule, antisymmetry, and multi-piece recombination against a root-descent reference decomposition; labelled-noise states decide the W/U identities for all noise values at once.",
         "times restricted to the stated grids; canonical key reads private tree fields for de-duplication only; float64"),
 'C04': ('model_checking', 'A', 'explicit-state exploration under a labelled-noise seam; exact covariance M M^T vs closed-form Brownian covariance in every state',
         "In every reached tree the joint law of all probed W and H statistics is decided exactly (linear map over independent labels => Gaussian; covariance compared entrywise with the Wiener-kernel closed form, which is self-tested against exact rational arithmetic); supplied W/H bridges; samples of shape (B,K) with cross-row independence; twin-sweep histories producing two chains deeper than 64 levels; Davie/Foster conditional mean and variance as an identity against the logged noise.",
         "independence/normality of torch.randn streams with distinct seeds is trusted; grids as stated"),
 'C05': ('model_checking', 'A', 'explicit-state exploration with first-answer oracle (bitwise) on every repeated query',
         "Every query of every explored history is re-issued in every extension, in order, reversed and through ReverseBrownian; all answers must be torch.equal to the first answer. Answers are snapshots (clones), so in-place mutation of stored tensors is visible. Histories: full product to depth 2 over ~215 configurations (cache 0/1/2/45/None, dt hint or inferred, all Levy modes, shapes, float32, intervals [-1,1] and [1,3], point evaluations), depth 3 on core configurations, solver-shaped forward/backward sweeps across the warm-up with <=2 deviations, deep twin sweeps.",
         "bitwise comparison within one process/thread; grids and schedules as stated"),
 'C06': ('model_checking', 'A', 'explicit-state exploration with twin-object and fresh-object-dictionary oracles (bitwise)',
         "Every explored history is replayed on a second fresh object with equal entropy (bit-identical answers); in dyadic mode (halfway_tree=True, BrownianTree) every answer in every reached state equals the answer a fresh object gives for that interval, over the full product of histories to depth 2-3 (different query sets, not permutations) incl. sub-tolerance queries; distinct entropies give distinct paths; entropy 0 is run on every configuration.",
         "two entropies compared per run (derived from VERIF_SEED); bitwise comparison in one process"),
 'C07': ('model_checking', 'A', 'explicit-state exploration with work/stack/cache meters on every public call; step-count ladder through sdeint',
         "Every public call over the full constructor product (sizes x Levy modes x cache 0/1/2/45/None x dt hints x tol x halfway x supplied W/H), micro histories incl. 1-ulp and sub-tolerance queries, sweeps across the warm-up with <=2 deviations, 25000-step forward-then-backward sweeps on the object (also under a dt hint far coarser than the steps), and sdeint ladders up to 25000 (thorough 60000) steps returns normally with finite values within a node-creation budget, with frame depth at node creation and at every noise draw inside a logarithmic allowance and cache entries <= cache_size.",
         "non-termination is decided by a deterministic work budget; the frame-depth allowance (200 + 8 log2(T/res)) is a judgement well above the dyadic recursion the design needs and well below the recursion limit"),
 'C12': ('exploration', 'B', 'exhaustive enumeration of output-time subsets of a dyadic lattice x dt x cells against the grid trajectory of the solver\'s own step',
         "For every subset (size>=2) of the lattice as ts, every dt of the alphabet, every supported solver/noise cell (incl. grad-free Milstein), float32/float64, ts as tensor or list: ys[0] is y0 bitwise, outputs at grid times are the grid states bitwise, outputs inside a step are the linear interpolants, the Brownian queries are exactly the dt-grid steps, values at shared times are invariant under changing other output times, shape/dtype are right; ts as list/tuple is bit-identical to a tensor of y0's dtype at non-dyadic times under both global default dtypes; one lattice straddles t=0.",
         "dyadic lattice so that the reference grid equals the library's grid bit-for-bit; reference trajectory uses the library's step (C02 covers step)"),
 'C13': ('fault_enumeration', 'B', 'exhaustive enumeration of restart-point sets (all 2^(N-1) chunkings) against the one-shot solve, bitwise',
         "Every subset of interior grid points as restart points, every supported cell, extra solver state threaded through extra=True/extra_solver_state, dense and end-point-only outputs, final time on and off the step grid, 24 batch rows: all shared values and the final extra state are torch.equal to the one-shot solve.",
         "restart points on the step grid (as the property requires); N=6 quick, 8 thorough"),
 'C14': ('model_checking', 'B', 'stateless exploration of the adaptive controller under scripted error answers (full product of length L, deviation bound 2), trial log parsed from a recording Brownian proxy',
         "Every controller decision sequence within the bounds terminates (trial cap 2000), tiles [ts[0],ts[-1]] contiguously and ends exactly at ts[-1], respects dt_min except for the clipped last trial, accepts iff error<=1 or dt_min reached, retries rejected trials strictly smaller, accepts a step with error>1 only when a retry shrunk by the documented facmin would be at dt_min, and returns the two-half-step solution on the accepted steps (bitwise) with interpolated interior outputs; the error norm equals an independent implementation on an exhaustive grid; true error does not increase along tolerance ladders on GBM families.",
         "error answers from a 6-letter alphabet; 4 solver cells; the ladder uses 64 fixed paths and a factor-2 slack"),
 'C16': ('exploration', 'C+D', 'exhaustive enumeration of interface subsets x cells (bitwise vs the (f,g) variant) and of derived operators vs einsum definitions from explicit Jacobians',
         "All 27 method subsets that define drift and diffusion, plain and renamed through `names`, on every supported cell: bit-identical solution or an explicit method-missing error, never a different number. g_prod, the Milstein g dg v term and both dg_ga_jvp_column_sum implementations equal their index definitions on programs with non-symmetric Jacobians and non-commuting columns.",
         "program alphabet of mc/zoo.py; user-side products are written like the library defaults so bitwise equality is meaningful"),
 'C19': ('exploration', 'C', 'exhaustive enumeration of the configuration matrix of sdeint/sdeint_adjoint against the documentation table; spying Brownian proxy',
         "Full product sde_type x noise_type x method x levy x {bm given, None} x adaptive x logqp (x grad_free), adjoint_method for every supported forward cell, 98 malformed-argument cases in both entry points, each with a well-formed control call that must run, and the default-method table: documented cells run (and the solver that queries the proxy is the documented one), every other forward cell raises ValueError with zero Brownian queries, inadmissible adjoint methods raise out of backward() with no gradient populated.",
         "oracle table transcribed from DOCUMENTATION.md and solver docstrings (log_ode from its module docstring); one tiny problem per (sde_type, noise_type)"),
 'C08': ('exploration', 'C+D', 'exhaustive enumeration of cells x programs x ts/dt patterns; full Jacobian by backprop vs central finite differences',
         "For every supported solver/noise cell (incl. grad-free Milstein, log-ODE with Davie and Foster, adaptive with saturated step factor) the complete Jacobian of all output entries with respect to y0 and every parameter entry obtained by backprop equals central differences of sdeint with the Brownian object held fixed (2e-6 relative; observed 5e-10), with y0 requiring grad and with parameters only. Linearity in the loss weights makes this a statement about all loss weightings.",
         "program alphabet of mc/zoo.py; float64 differences with step 1e-6"),
 'C09': ('exploration', 'C+D', 'exhaustive enumeration of the admissible adjoint matrix (exact forward equality, gradient-target subsets, loss-support subsets) plus a bounded dt ladder with calibrated ceilings',
         "On all 92 admissible (sde_type, noise_type, method, adjoint_method) cells sdeint_adjoint returns torch.equal values to sdeint (also extra/logqp); for every subset of {y0, parameters} (requires_grad and adjoint_params styles) exactly the requested tensors receive gradients and their values do not depend on the request set; gradients are additive over every subset of output times. Along dt = 2^-3..2^-7(9) with a fixed 128-path batch the relative gradient error against backprop and closed-form GBM gradients at least halves and stays under ceilings calibrated at 4x the worst of 16 entropies.",
         "the limit dt->0 is not decided by enumeration; C11 (exact vector fields) and C10 carry the sharp part"),
 'C10': ('exploration', 'D', 'exhaustive enumeration of aligned ts subsets x dt x programs x one-hot loss basis; adjoint vs backprop gradients',
         "Four noise types, programs and batch sizes of the alphabet, dt in {1/2,1/4,1/8}, subsets of the dt-lattice as ts, the full one-hot basis of loss weights plus a dense weighting: gradients from the reversible Heun adjoint equal backprop through sdeint(reversible_heun) to 1e-9 relative (observed 5e-16).",
         "aligned ts only (the property's precondition); misalignment warnings are turned into errors"),
 'C11': ('exploration', 'D', 'exhaustive enumeration of (sde_type, noise_type) x programs x parameter sets x augmented states; elementwise comparison with independently derived adjoint fields',
         "AdjointSDE.f, g_prod, f_and_g_prod and the diagonal Milstein term equal the augmented Stratonovich adjoint fields converted to the SDE's calculus by the generic Ito-Stratonovich rule with explicit Jacobians (1e-10), for parameter sets incl. unused parameters; no graph under no_grad; derivative through the fields matches finite differences when enabled.",
         "first derivatives of the user program by torch.autograd are trusted"),
 'C15': ('exploration', 'D', 'exhaustive enumeration of programs x step sizes x Gauss-Hermite increment grids (single step via scripted Brownian stub) and step counts (sdeint + ReverseBrownian)',
         "The reverse step (same step function on the negated, time-reversed SDE with negated extra state) applied to a forward step's output returns (y, f, g, z) to 1e-12 for every grid increment, from a generic extra state, also when the step is shorter than the solver's nominal dt; irregular grids with carried extra state and multi-step solves are reconstructed to rounding scaled by the measured amplification of the reverse recursion.",
         "identity checked numerically on the program alphabet, not symbolically in f and g"),
 'C17': ('exploration', 'C+D', 'exhaustive enumeration of special-noise programs x general embeddings x solvers accepting both',
         "diagonal, scalar and additive programs and their d x m general embeddings give the same solution (1e-13; observed identical) under equal-entropy Brownian motions for euler, euler_heun, heun, midpoint, reversible_heun and log_ode with Davie and Foster areas, batch 1 and 3, aligned and unaligned dt.",
         "program alphabet of mc/zoo.py"),
 'C18': ('exploration', 'C+D', 'exhaustive enumeration of cells x output-time subsets x dt against a harness-built augmented system and an exact family',
         "For every supported cell: logqp has shape (len(ts)-1, batch), is non-negative, additive over refinements of ts, equals the integral of 1/2|g^+(f-h)|^2 accumulated by the same solver on an augmented system written by the harness, equals 1/2|c|^2 dt exactly when f-h=g c (incl. negative diagonal diffusion entries), and the state trajectory is torch.equal to the run without logqp under the same noise.",
         "program alphabet; diagonal noise uses a proxy Brownian motion whose first d channels are the original"),
 'C20': ('exploration', 'C+A', 'exhaustive enumeration of rows x perturbations x permutations (bitwise) and of every element of every noise draw through the numeric-table seam',
         "For every supported cell and batch 2-3: perturbing another row of y0 or of any noise draw leaves a row bit-identical (one noise element never moves two rows), permuting rows permutes outputs. On the Brownian side, for every Levy mode, shape and cache size, perturbing any single element of any W-, H- or Levy-noise draw moves only the entries the property allows.",
         "row-wise SDE programs; sizes as stated (exhaustive for those sizes)"),
 'C01': ('exploration', 'C+D', 'exhaustive enumeration of cells x closed-form problems x dyadic dt ladder over fixed path sets; composition check; adaptive tolerance ladder',
         "For every supported cell the RMS error against the closed-form solution evaluated on the same Brownian path, over 1024 fixed paths, decays along dt = 2^-3..2^-7 (thorough 2^-9, 4 path sets) with least-squares slope >= advertised order - 0.3 (healthy cells observed within 0.11), the N-step solve is bitwise the composition of step on its recorded increments, and adaptive errors do not grow as tolerances tighten. Together with C02 (local obligations at exactly the advertised order), C12 and C03/C04 this gives the order claim via Milstein's fundamental theorem.",
         "the limit dt->0 and the expectation over Wiener measure are not enumerable: the ladder is a bounded witness on fixed paths"),
 'C02': ('exploration', 'D', 'exhaustive enumeration of cells x programs x base points x Gauss-Hermite increment grids x eps ladder through the real step with a scripted Brownian stub; oracle = Kloeden-Platen strong Taylor expansion from explicit nested Jacobians',
         "For every supported cell (incl. grad-free Milstein, log-ODE with Levy area input) the quadrature norm over all increment nodes of step - Taylor_p decays with slope >= 2p+1/2 in sqrt(h) (observed exactly 2p+1), |E step - E exact| with slope >= 2p+3/2 (observed 2p+2 or machine zero), at p = the solver's advertised strong order (which must equal the documented one), with the solver's nominal dt equal to and three times the step taken; Euler and derivative Milstein equal their textbook formulas to 1e-13. With 7 nodes per dW coordinate (thorough) vanishing on the grid is vanishing identically for the polynomial coefficients involved.",
         "asymptotic statement checked on a finite eps ladder; program alphabet of mc/zoo.py (non-symmetric Jacobians, non-commuting columns, time dependence)"),
}
def main():
    checks = []
    for pid, (cat, eng, tech, text, note) in sorted(CHECKS.items()):
        checks.append(dict(property_id=pid, quick_cmd=f"./run {pid} quick", thorough_cmd=f"./run {pid} thorough",
                           evidence_file=f"/verif/evidence/{pid}.json",
                           replay_cmd_template="./replay {path}", engine=eng,
                           level_claimed=dict(category=cat, text=text, design_ref="DESIGN.md section 5 (" + pid + ")"),
                           level_note=note, technique=tech))
    props = [json.loads(l)['id'] for l in open(os.path.join(HERE, 'properties.jsonl'))]
    na = [dict(property_id=p, reason="check not built yet in this snapshot (see DESIGN.md section 5 for the plan)")
          for p in props if p not in CHECKS]
    m = dict(version=1,
             setup_cmd="true",
             hooks=dict(guard="TORCHSDE_VERIF", enable="no source hooks: all seams are Python-level substitutions made by the harness process (DESIGN.md section 1); ./run sets TORCHSDE_VERIF=1 for completeness",
                        baseline_off_cmd="cd /repo && /venv/bin/python -m pytest -ra -q -p no:cacheprovider --timeout=900 --continue-on-collection-errors",
                        source_commits=[], add_only=True),
             engines=[dict(name='A', path='mc/bm_machine.py mc/explore.py mc/bm_invariants.py', serves_properties=['C03','C04','C05','C06','C07'], kind_free_text='explicit-state / stateless exploration of live Brownian objects through public queries'),
                      dict(name='B', path='mc/loop_machine.py', serves_properties=['C12','C13','C14'], kind_free_text='stateless exploration of the stepping loop under scripted environments'),
                      dict(name='C', path='mc/matrix.py', serves_properties=['C19','C16','C17','C18','C20','C09'], kind_free_text='exhaustive configuration matrix'),
                      dict(name='D', path='mc/zoo.py mc/refs.py', serves_properties=['C01','C02','C08','C10','C11','C15'], kind_free_text='finite program alphabet x increment grids')],
             checks=checks, not_applicable=na,
             notes="All checks run the real implementation from /repo's working tree (PYTHONPATH=/repo). Known findings: /verif/known_findings.json.")
    json.dump(m, open(os.path.join(HERE, 'MANIFEST.json'), 'w'), indent=1)
if __name__ == '__main__':
    main()
